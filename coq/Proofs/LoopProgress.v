(* C01 / C02 progress, part 3: the procedures above the handler and the two theorems
   out_progress_holds and in_progress_holds. *)
From Coq Require Import Lia ZArith ZifyBool.
From GV Require Import Lib.Trace Model.Loop Spec.LoopSpec Proofs.LoopDataLib
  Proofs.LoopProgressBlock Proofs.LoopProgressProcs.
Open Scope string_scope.
Open Scope list_scope.
Open Scope Z_scope.

Section ET.
Variable et : bool.
Notation QINV := (Inv ustep (qstep et) tt (q0 et)).
Notation RQn := (LoopProgressBlock.RQ et).
Notation RT xa rf := (LoopProgressBlock.RQ et [] [] [] xa rf).

Ltac qoign := apply qign_out_ign; repeat split; reflexivity.
Ltac dsq := eapply Q_desync; eassumption.

Definition MB (f : nat) := MQa_all et f [].

(* ------------------------------------------------------------------ *)
(* the read follow-up parameter *)

Lemma RQ_rf_weaken : forall nd W ops xa rf u x s, RQn nd W ops xa None u x s -> RQn nd W ops xa rf u x s.
Proof.
  intros nd W ops xa rf u x s [R1 R2 R3 R4 R5 R6 R7 R8 R9 R10 R11 R12 R13]. constructor; auto.
  intros E. destruct (R12 E) as [A|(c & A & _)]; [left; exact A|discriminate].
Qed.

Lemma Q_rf_weaken : forall xa rf w, QINV (RT xa None) w -> QINV (RT xa rf) w.
Proof. intros xa rf w HI. eapply Q_weaken; [|exact HI]. intros u x HR. apply RQ_rf_weaken. exact HR. Qed.

(* the follow-up is settled when the connection is not open any more, or in level-triggered mode *)
Lemma Q_rf_clear : forall xa c w, c_opened (wc w c) = false \/ l_et (st w) = false ->
  QINV (RT xa (Some c)) w -> QINV (RT xa None) w.
Proof.
  intros xa c w Hc HI. eapply Q_weaken; [|exact HI]. intros u x HR.
  pose proof (q_et _ _ _ _ _ _ _ _ _ HR) as [E1 _].
  destruct HR as [R1 R2 R3 R4 R5 R6 R7 R8 R9 R10 R11 R12 R13]. constructor; auto.
  intros E. destruct (R12 E) as [A|(c0 & A & B & C & D)]; [left; exact A|]. exfalso.
  inversion A; subst c0. unfold wc in Hc. destruct Hc; congruence.
Qed.

(* ------------------------------------------------------------------ *)
(* read(2) on a connection: the size offered and the size returned *)

Definition RQc (cid : Z) (v : Z) (u : unit) (x : progst * rdst) (s : lstate) : Prop :=
  RT (QOpen cid) None u x s /\ (et = true -> r_cap (snd x) = v /\ r_full (snd x) = None).

Lemma rd_step_in_notr : forall b name args, name <> "r" -> rd_step b (EIn (name, args)) = Some b.
Proof.
  intros b name args N. unfold rd_step. crack_goal ltac:(first [reflexivity|congruence]). all: try reflexivity.
  all: congruence.
Qed.

Lemma RQc_pull_ok : forall cid v, pull_ok ustep (qstep et) (RQc cid v).
Proof.
  intros cid v. split.
  - intros h x s l [HR _]. eapply qstep_in_some; eauto.
  - intros h [p b] s [name args] s' h' x' [HR Hc] Ea E1 Es.
    pose proof (apply_async_notr _ _ _ _ Ea) as N.
    assert (Hx : x' = (p, b)).
    { unfold qstep in Es. cbn [fst snd] in Es. rewrite prog_step_in_notr in Es by exact N.
      unfold rdx in Es. destruct et; [rewrite rd_step_in_notr in Es by exact N|]; inversion Es; reflexivity. }
    subst x'. split; [|exact Hc].
    destruct (RQ_pull_ok et [] [] [] (QOpen cid) None) as [_ P2]. eapply P2; eauto.
Qed.

Lemma Q_sys_read : forall cid fd cap rf0 w k w',
  QINV (RT (QOpen cid) rf0) w -> sys "read" [AInt fd; AInt cap] w = (k, w') ->
  match k with
  | KOk n _ => QINV (RQc cid (if n =? cap then 1 else 0)) w'
  | _ => QINV (RT (QOpen cid) None) w'
  end.
Proof.
  intros cid fd cap rf0 w k w' HI E. unfold sys in E.
  assert (H0 : QINV (RQc cid cap) (emit (obs "sys" [ASym "read"; AInt fd; AInt cap]) w)).
  { eapply Inv_emit; [exact HI|reflexivity|].
    intros [] [p b] _ HR. cbn [ustep]. unfold qstep, rdx, obs. cbn [fst snd prog_step].
    exists (p, if et then mkR cap None (r_cur b) else b). split; [destruct et; reflexivity|].
    split.
    - destruct HR as [R1 R2 R3 R4 R5 R6 R7 R8 R9 R10 R11 R12 R13]. constructor; cbn [fst snd] in *; auto.
      intros Het. rewrite Het. left. reflexivity.
    - intros Het. rewrite Het. cbn. auto. }
  rewrite sysret_eq in E.
  destruct (pull _) as [[[nm0 args]|] w1] eqn:Ep.
  2:{ inversion E; subst. apply Inv_dead. exact (Inv_pull ustep (qstep et) tt _ _ _ _ _ (RQc_pull_ok _ _) H0 Ep). }
  pose proof (Inv_pull ustep (qstep et) tt _ _ _ _ _ (RQc_pull_ok _ _) H0 Ep) as HA. cbn [after_pull] in HA.
  assert (Hds : forall what R, QINV R (desync what w1)) by (intros; eapply Q_desync; exact HA).
  destruct (String.eqb_spec nm0 "r") as [->|N]; [|inversion E; subst; apply Hds].
  destruct args as [|[?|?|nm] [|[n|?|?] rest]]; try (inversion E; subst; apply Hds).
  unfold sym_eqb in E. destruct (String.eqb_spec nm "read") as [->|N]; cbn [negb] in E;
    [|inversion E; subst; apply Hds].
  assert (H1 : QINV (RQc cid (if n =? cap then 1 else 0)) w1).
  { eapply Inv_weaken; [|exact HA]. intros h' [p' b'] _ (h & [p b] & [HR Hc] & _ & _ & Es). destruct h, h'.
    unfold qstep in Es. cbn [fst snd] in Es.
    rewrite (prog_step_in_other _ _ (q_last _ _ _ _ _ _ _ _ _ HR)) in Es. unfold rdx in Es.
    destruct (Bool.bool_dec et true) as [Het|Het].
    - rewrite Het in Es. cbn [rd_step] in Es. inversion Es; subst p' b'. destruct (Hc Het) as [C1 C2]. split.
      + destruct HR as [R1 R2 R3 R4 R5 R6 R7 R8 R9 R10 R11 R12 R13]. constructor; cbn [fst snd] in *; auto.
      + intros _. cbn [r_cap r_full snd] in *. rewrite C1. auto.
    - assert (Hf : et = false) by (destruct et; congruence). rewrite Hf in Es. inversion Es; subst.
      split; [exact HR|intros C; congruence]. }
  assert (H1' : QINV (RT (QOpen cid) None) w1) by (eapply Inv_weaken; [|exact H1]; intros h x _ [HR _]; exact HR).
  destruct (n <? 0); [destruct rest as [|[?|?|?] ?]|]; inversion E; subst; assumption.
Qed.

(* closing the connection settles its read follow-up *)
Lemma el_close_clear : forall f cid e w r w' rf0, rf0 = None \/ rf0 = Some cid ->
  QINV (RT QNone rf0) w -> el_close (S f) cid e w = (r, w') -> QINV (RT QNone None) w'.
Proof.
  intros f cid e w r w' rf0 Hrf HI E.
  destruct Hrf as [->| ->].
  { eapply (el_close_S et f (MQa_all et f) []); [apply okx_none|left; reflexivity|exact HI|exact E]. }
  pose proof (MQa_all et f) as M. cbn [el_close] in E.
  destruct (c_opened (wc w cid)) eqn:Eo; cbn [negb orb] in E.
  2:{ inversion E; subst. eapply Q_rf_clear; [left; exact Eo|exact HI]. }
  destruct (alookup (c_fd (wc w cid)) (l_reg (st w))) as [rc|] eqn:Er.
  2:{ inversion E; subst. eapply Q_weaken; [|exact HI]. intros u x HR. exfalso. unfold wc in *.
      destruct (q_reg _ _ _ _ _ _ _ _ _ HR cid Eo) as [A|[_ []]]. congruence. }
  set (w2 := emit _ (with_st w _)) in E.
  assert (H2 : QINV (RQn [] [cid] [] QNone None) w2).
  { subst w2. eapply Inv_set_emit; [exact HI|reflexivity|].
    intros [] [p b] _ HR. cbn [ustep]. unfold wc in *.
    destruct (RQ_close et [] _ _ _ _ _ _ _ cid (err_sym e) QNone (okx_none cid) HR Eo) as [x' [Ex HR']]; [congruence|].
    exists x'. split; [exact Ex|].
    destruct HR' as [R1 R2 R3 R4 R5 R6 R7 R8 R9 R10 R11 R12 R13]. constructor; auto.
    intros Het. destruct (R12 Het) as [A|(c & A & B & C & D)]; [left; exact A|].
    exfalso. inversion A; subst c. apply D. left. reflexivity. }
  clearbody w2.
  destruct (handler f cid w2) as [[act rep] w3] eqn:Eh.
  pose proof (mq_handler _ _ _ (M []) _ _ _ _ _ _ _ eq_refl H2 Eh) as H3.
  assert (HinW : In cid [cid]) by (left; reflexivity).
  pose proof (mq_drain _ _ _ (M []) cid _ _ _ _ HinW H3) as H4.
  set (w4 := close_drain f cid w3) in *. clearbody w4.
  set (fd4 := c_fd (wc w4 cid)) in *.
  assert (H5 : QINV (RT (QNoReg fd4) None) (wsetc w4 cid (c_release (wc w4 cid)))).
  { eapply Inv_wsetc; [exact H4|]. intros [] x _ HR. apply RQ_release. exact HR. }
  assert (Hfree : forall u p b s, RT (QNoReg fd4) None u (p, b) s ->
     forall c, In (fd4, c) (l_reg s) -> c_udp (getc s c) = false -> pdead p c = false -> c_out (getc s c) <> [] -> False).
  { intros u p b s HR c Hin _ _ _. pose proof (q_x _ _ _ _ _ _ _ _ _ HR) as X. cbn [qsem] in X.
    eapply noreg_free; eauto. }
  destruct (epctl "del" _ false false _) as [r0 w6] eqn:E6.
  pose proof (Q_epctl_free _ _ _ _ _ _ _ _ _ _ _ _ _ Hfree H5 E6) as H6.
  destruct (sys "close" _ w6) as [k1 w7] eqn:E7.
  pose proof (Q_sys_close _ _ _ _ _ _ _ _ _ _ Hfree H6 E7) as H7.
  assert (H7' : QINV (RT QNone None) w7)
    by (eapply (Q_xa_drop et [] [] [] (QNoReg fd4)); [| |exact H7]; [intros c []|intros; discriminate]).
  destruct (match r0 with RNil => _ | _ => true end); [inversion E; subst; exact H7'|].
  destruct act; [inversion E; subst; exact H7'| |inversion E; subst; exact H7'].
  eapply (mq_close _ _ _ (M [])); [apply okx_none|left; reflexivity|exact H7'|exact E].
Qed.

(* ------------------------------------------------------------------ *)
(* el_read *)

Definition rf_of (r : res) (cid : Z) : option Z := match r with RShutdown => Some cid | _ => None end.

Lemma Q_rf_post : forall r cid w, QINV (RT QNone None) w -> QINV (RT QNone (rf_of r cid)) w.
Proof. intros. apply Q_rf_weaken. assumption. Qed.

Lemma Q_open_set : forall rf cid w, c_opened (wc w cid) = true -> QINV (RT QNone rf) w -> QINV (RT (QOpen cid) rf) w.
Proof. intros rf cid w Ho HI. apply Q_xa_set; [|exact HI]. intros u x HR. exact Ho. Qed.

Lemma Q_open_drop : forall rf cid w, QINV (RT (QOpen cid) rf) w -> QINV (RT QNone rf) w.
Proof. intros rf cid w HI. eapply (Q_xa_drop et [] [] [] (QOpen cid)); [intros c []|discriminate|exact HI]. Qed.

(* `g del`: a delivery; if the read filled its buffer the connection is owed a follow-up *)
Lemma Q_del : forall cid n cap data w,
  QINV (RQc cid (if n =? cap then 1 else 0)) w ->
  QINV (RT (QOpen cid) (if n =? cap then Some cid else None)) (ghost "del" cid data w).
Proof.
  intros cid n cap data w HI. unfold ghost. eapply Inv_emit; [exact HI|reflexivity|].
  intros [] [p b] _ [HR Hc]. cbn [ustep]. unfold qstep, rdx. cbn [fst snd prog_step].
  exists (p, if et then mkR 0 (if r_cap b =? 1 then Some cid else None) (Some cid) else b).
  split; [destruct et; reflexivity|].
  pose proof (q_x _ _ _ _ _ _ _ _ _ HR) as Ho. cbn [qsem] in Ho.
  destruct HR as [R1 R2 R3 R4 R5 R6 R7 R8 R9 R10 R11 R12 R13]. constructor; cbn [fst snd] in *; auto.
  intros Het. rewrite Het. destruct (Hc Het) as [C1 C2]. cbn [r_full]. rewrite C1.
  destruct (n =? cap); cbn; [right; exists cid; auto|left; reflexivity].
Qed.

Lemma Q_rearm_read : forall xa rf cid w, QINV (RT xa rf) w -> QINV (RT xa None) (ghost "rearm-read" cid [] w).
Proof.
  intros xa rf cid w HI. unfold ghost. eapply Inv_emit; [exact HI|reflexivity|].
  intros [] [p b] _ HR. cbn [ustep]. unfold qstep, rdx. cbn [fst snd prog_step].
  exists (p, if et then mkR (r_cap b) None (r_cur b) else b). split; [destruct et; reflexivity|].
  destruct HR as [R1 R2 R3 R4 R5 R6 R7 R8 R9 R10 R11 R12 R13]. constructor; cbn [fst snd] in *; auto.
  intros Het. rewrite Het. left. reflexivity.
Qed.

Lemma el_read_inv : forall f cid recv w r w' rf0, rf0 = None \/ rf0 = Some cid ->
  QINV (RT QNone rf0) w -> recv = 0 \/ c_opened (wc w cid) = true ->
  el_read f cid recv w = (r, w') -> QINV (RT QNone (rf_of r cid)) w'.
Proof.
  induction f as [|f IH]; intros cid recv w r w' rf0 Hrf HI0 Hpre E; cbn [el_read] in E.
  { inversion E; subst. dsq. }
  destruct (negb (c_opened (wc w cid)) && (recv =? 0)) eqn:Eg.
  { assert (Hc : c_opened (wc w cid) = false) by (destruct (c_opened (wc w cid)); [discriminate|reflexivity]).
    inversion E; subst. cbn [rf_of]. destruct Hrf as [->| ->]; [exact HI0|].
    eapply Q_rf_clear; [left; exact Hc|exact HI0]. }
  assert (Ho : c_opened (wc w cid) = true).
  { destruct Hpre as [->|Ho]; [|exact Ho]. rewrite Z.eqb_refl, andb_true_r in Eg. destruct (c_opened _); [reflexivity|discriminate]. }
  clear Eg Hpre.
  pose proof (Q_open_set _ _ _ Ho HI0) as HX0.
  destruct (sys "read" _ w) as [k w1] eqn:Es.
  pose proof (Q_sys_read _ _ _ _ _ _ _ HX0 Es) as H1.
  pose proof (sys_bc _ _ _ _ _ Es) as Hb1.
  assert (Hfail : forall w0, QINV (RT (QOpen cid) None) w0 -> forall r w',
            el_close (S f) cid false (ghost "fail" cid [] w0) = (r, w') -> QINV (RT QNone (rf_of r cid)) w').
  { intros w0 H0 r0 w0' Ec. apply (Q_rf_post r0 cid).
    eapply (el_close_S et f (MQa_all et f) []); [apply okx_none|left; reflexivity| |exact Ec].
    apply Q_fail. apply (Q_open_drop None cid). exact H0. }
  destruct k as [n extra|e|].
  2:{ destruct (is_eagain e); [inversion E; subst; apply (Q_rf_post RNil cid); apply (Q_open_drop None cid); exact H1|].
      eapply Hfail; [exact H1|exact E]. }
  2:{ inversion E; subst. apply (Q_rf_post RNil cid). apply (Q_open_drop None cid). exact H1. }
  assert (H1' : QINV (RT (QOpen cid) None) w1) by (eapply Inv_weaken; [|exact H1]; intros h x _ [HR _]; exact HR).
  destruct (n =? 0); [eapply Hfail; [exact H1'|exact E]|].
  destruct (negb (zlen _ =? n) || _); [inversion E; subst; dsq|].
  set (data := match extra with ABytes b :: _ => b | _ => [] end) in *.
  set (rfd := if n =? l_bufcap (st w) then Some cid else None).
  set (w3 := emit _ (wsetc (ghost "del" cid data w1) cid _)) in E.
  assert (H3 : QINV (RT QNone rfd) w3).
  { subst w3. apply Q_emit; [qoign|]. apply (Q_open_drop rfd cid).
    apply Q_wsetc_same; rewrite ?wc_ghost; auto. apply Q_del. exact H1. }
  assert (Hb3 : l_bufcap (st w3) = l_bufcap (st w)).
  { subst w3. rewrite st_emit. change (l_bufcap (st (wsetc ?a ?b ?c))) with (l_bufcap (st a)). rewrite st_ghost. exact Hb1. }
  clearbody w3.
  destruct (handler (S f) cid w3) as [[act rep] w4] eqn:Eh.
  pose proof (mq_handler _ _ _ (MQa_all et (S f) []) _ _ _ _ _ _ _ eq_refl H3 Eh) as H4.
  pose proof (bf_handler _ (BF_all (S f)) _ _ _ _ Eh) as Hb4.
  assert (Hrfd : rfd = None \/ rfd = Some cid) by (subst rfd; destruct (n =? l_bufcap (st w)); auto).
  destruct act.
  - (* None *)
    destruct (c_opened (wc w4 cid)) eqn:Eo4; cbn [negb] in E.
    2:{ inversion E; subst. cbn [rf_of]. destruct Hrfd as [Er|Er]; rewrite Er in H4; [exact H4|].
        eapply Q_rf_clear; [left; exact Eo4|exact H4]. }
    set (w5 := wsetc w4 cid _) in E.
    assert (H5 : QINV (RT QNone rfd) w5) by (subst w5; apply Q_wsetc_same; auto).
    assert (Ho5 : c_opened (wc w5 cid) = true) by (subst w5; rewrite wc_wsetc; exact Eo4).
    assert (Hb5 : l_bufcap (st w5) = l_bufcap (st w)) by (subst w5; change (l_bufcap (st w4) = l_bufcap (st w)); congruence).
    assert (He5 : l_et (st w5) = l_et (st w4)) by (subst w5; reflexivity).
    clearbody w5.
    destruct (c_eof (wc w5 cid) || _).
    + eapply IH; [exact Hrfd|exact H5|right; exact Ho5|exact E].
    + destruct (l_et (st w5)) eqn:Ee5; cbn [andb] in E.
      * destruct (n =? l_bufcap (st w5)) eqn:En.
        { apply (Q_rf_post r cid). eapply Q_trigger; [| |exact E]; [reflexivity|]. eapply Q_rearm_read. exact H5. }
        { inversion E; subst. cbn [rf_of]. subst rfd. rewrite Hb5 in En. rewrite En in H5. exact H5. }
      * inversion E; subst. cbn [rf_of]. destruct Hrfd as [Er|Er]; rewrite Er in H5; [exact H5|].
        eapply Q_rf_clear; [right; exact Ee5|exact H5].
  - (* Close *)
    apply (Q_rf_post r cid). eapply el_close_clear; [exact Hrfd|exact H4|exact E].
  - (* Shutdown *)
    inversion E; subst. cbn [rf_of]. destruct Hrfd as [Er|Er]; rewrite Er in H4; [apply Q_rf_weaken|]; exact H4.
Qed.

(* ------------------------------------------------------------------ *)
(* el_open *)

Definition xpost (cid : Z) (w' : world) (xa : qxa) : Prop :=
  xa = QNone \/ (l_et (st w') = false /\ exists fd, xa = QXf cid fd).

Lemma open_loop_inv : forall cid k data w fd o r w',
  QINV (RT (QE cid fd o) None) w -> open_loop cid k data w = (r, w') ->
  exists xa, xpost cid w' xa /\ QINV (RT xa None) w'.
Proof.
  intros cid. induction k as [|k IH]; intros data w fd0 o r w' HI0 E; cbn [open_loop] in E.
  { inversion E; subst. exists QNone. split; [left; reflexivity|]. dsq. }
  assert (Hnone : forall o' w0, QINV (RT (QE cid (c_fd (wc w cid)) o') None) w0 -> exists xa, xpost cid w0 xa /\ QINV (RT xa None) w0).
  { intros o' w0 H0. exists QNone. split; [left; reflexivity|]. eapply Q_qe_drop. exact H0. }
  pose proof (Q_reanchor et [] _ _ _ _ _ _ _ HI0) as HI. clear HI0. set (fd := c_fd (wc w cid)) in *.
  destruct data as [|b0 l0].
  - destruct (sys_wr cid _ [] true w) as [kr w1] eqn:Es.
    pose proof (Q_sys_wr_E _ _ _ _ _ _ _ _ _ _ _ _ _ _ HI Es) as H1.
    destruct kr as [n ?|e|].
    + destruct H1 as [_ H1]. inversion E; subst. eapply Hnone; exact H1.
    + destruct (is_eagain e); inversion E; subst; eapply Hnone; exact H1.
    + inversion E; subst. exists QNone. split; [left; reflexivity|]. apply Q_dead. exact H1.
  - set (data := b0 :: l0) in *. clearbody data.
    destruct (sys_wr cid _ data true w) as [kr w1] eqn:Es.
    pose proof (Q_sys_wr_E _ _ _ _ _ _ _ _ _ _ _ _ _ _ HI Es) as H1.
    pose proof (sys_wr_et _ _ _ _ _ _ _ Es) as Hm1.
    destruct kr as [n ?|e|].
    + destruct H1 as [_ H1]. destruct (zdrop n data) as [|b1 l1] eqn:Ed.
      * inversion E; subst. eapply Hnone; exact H1.
      * eapply IH; [exact H1|exact E].
    + destruct (is_eagain e); [|inversion E; subst; eapply Hnone; exact H1].
      inversion E; subst. destruct (l_et (st w1)) eqn:Eb.
      * exists QNone. split; [left; reflexivity|]. eapply Q_fill_et; eauto.
      * exists (QXf cid fd). split; [right; split; [exact Eb|eauto]|]. eapply Q_fill_x; eauto.
    + inversion E; subst. exists QNone. split; [left; reflexivity|]. apply Q_dead. exact H1.
Qed.

Lemma RQ_opened : forall u x s cid,
  RT (QRegd cid) None u x s -> RT QNone None u x (setc s cid (c_set_opened (getc s cid) true)).
Proof.
  intros u [p b] s cid [R1 R2 R3 R4 R5 R6 R7 R8 R9 R10 R11 R12 R13]. cbn [fst snd qsem] in *. destruct R13 as [X1 X2].
  constructor; cbn [fst snd setc l_reg l_next l_et]; auto.
  - intros c. rewrite getc_setc. destruct (Z.eqb_spec c cid) as [->|N]; auto.
  - intros c. rewrite getc_setc. destruct (Z.eqb_spec c cid) as [->|N]; [|auto]. cbn [c_set_opened c_fd]. auto.
  - intros fd c H. destruct (R6 _ _ H) as (A & B & C). rewrite getc_setc.
    destruct (Z.eqb_spec c cid) as [->|N]; cbn [c_set_opened c_fd]; auto.
  - intros fd c H D. rewrite getc_setc. destruct (Z.eqb_spec c cid) as [->|N]; [left; reflexivity|].
    destruct (R7 _ _ H D) as [A|[A|A]]; auto. inversion A. congruence.
  - intros c [].
  - intros c k [].
  - intros c. rewrite getc_setc. destruct (Z.eqb_spec c cid) as [->|N]; [cbn [c_set_opened c_opened]; discriminate|auto].
  - intros fd c H. rewrite getc_setc. destruct (Z.eqb_spec c cid) as [->|N]; cbn [c_set_opened c_udp c_out]; intros A D E F _;
      apply (R11 fd _ H A D E F); cbn; tauto.
  - intros E. destruct (R12 E) as [A|(c & A & _)]; [left; exact A|discriminate].
  - exact I.
Qed.

Lemma Q_reanchor_xf : forall cid fd w,
  QINV (RT (QXf cid fd) None) w -> QINV (RT (QXf cid (c_fd (wc w cid))) None) w.
Proof.
  intros cid fd w HI. eapply (Q_xa_weaken et [] [] [] (QXf cid fd)); [intros; discriminate|cbn; auto| |exact HI].
  intros u x HR. pose proof (q_x _ _ _ _ _ _ _ _ _ HR) as X. cbn [qsem] in *. unfold wc. tauto.
Qed.

Lemma okx_of_xpost : forall cid w xa, xpost cid w xa -> okx xa cid.
Proof. intros cid w xa [->|[_ [fd ->]]]; [apply okx_none|apply okx_xf]. Qed.

Lemma Q_xf_empty : forall cid fd w, c_out (wc w cid) = [] ->
  QINV (RT (QXf cid fd) None) w -> QINV (RT QNone None) w.
Proof.
  intros cid fd w He HI. apply (Q_unexempt et [] [] [] (QXf cid fd) None w cid); [cbn; auto|discriminate| |exact HI].
  intros u p b HR fd0 _ _ _ _ N. congruence.
Qed.

Lemma el_open_inv : forall fuel cid w r w',
  QINV (RT (QRegd cid) None) w -> el_open fuel cid w = (r, w') -> QINV (RT QNone None) w'.
Proof.
  intros fuel cid w r w' HI E. rewrite el_open_eq in E. cbv zeta in E.
  set (w2 := emit _ (wsetc w cid _)) in E.
  assert (H2 : QINV (RT QNone None) w2).
  { subst w2. apply Q_emit; [qoign|]. eapply Inv_wsetc; [exact HI|]. intros [] x _ HR. apply RQ_opened. exact HR. }
  clearbody w2.
  destruct (handler fuel cid w2) as [[act rep] w3] eqn:Eh.
  pose proof (mq_handler _ _ _ (MB fuel) _ _ _ _ _ _ _ eq_refl H2 Eh) as H3.
  destruct (c_opened (wc w3 cid)) eqn:Eo3; cbn [negb] in E.
  2:{ destruct act; inversion E; subst; exact H3. }
  match type of E with (let '(ok, w4) := ?m in _) = _ => destruct m as [ok w4] eqn:Em end.
  assert (H4 : exists xa, xpost cid w4 xa /\ QINV (RT xa None) w4).
  { destruct rep as [data|].
    2:{ inversion Em; subst. exists QNone. split; [left; reflexivity|exact H3]. }
    set (w3' := if c_udp (wc w3 cid) then w3 else ghost "sub" cid data w3) in Em.
    assert (H3' : QINV (RT QNone None) w3').
    { subst w3'. destruct (c_udp (wc w3 cid)); [exact H3|apply Q_emit; [qoign|exact H3]]. }
    assert (Hwc : wc w3' cid = wc w3 cid) by (subst w3'; destruct (c_udp (wc w3 cid)); [reflexivity|apply wc_ghost]).
    assert (Hin : inp w3' = inp w3) by (subst w3'; destruct (c_udp (wc w3 cid)); [reflexivity|apply inp_emit]).
    clearbody w3'.
    destruct (c_udp (wc w3 cid) && negb (c_remote (wc w3 cid))).
    { destruct (sys "sendto" _ w3') as [k w5] eqn:Es.
      assert (H5 : QINV (RT QNone None) w5) by (eapply Q_sys; [|exact H3'|exact Es]; qoign).
      exists QNone. split; [left; reflexivity|]. destruct k; inversion Em; subst; exact H5. }
    destruct (c_out (wc w3 cid)) as [|b0 l0] eqn:Eout.
    - eapply (open_loop_inv cid _ _ _ _ false); [|exact Em].
      apply Q_enter_qe; [congruence|congruence|exact H3'].
    - inversion Em; subst. exists QNone. split; [left; reflexivity|].
      change (b0 :: l0 ++ data) with ((b0 :: l0) ++ data). rewrite <- Eout, <- Hwc. apply Q_append; [congruence|rewrite Hwc, Eout; discriminate|exact H3']. }
  destruct H4 as (xa & Hxp & H4).
  pose proof (okx_of_xpost _ _ _ Hxp) as Hok.
  destruct ok; cbn [negb] in E.
  2:{ eapply (mq_close _ _ _ (MB fuel)); [exact Hok|left; reflexivity|exact H4|exact E]. }
  match type of E with (let '(r5, w5) := ?m in _) = _ => destruct m as [r5 w5] eqn:Em5 end.
  assert (H5 : exists xa5, okx xa5 cid /\ (r5 = RNil -> xa5 = QNone) /\ QINV (RT xa5 None) w5).
  { destruct (c_out (wc w4 cid)) as [|b0 l0] eqn:Eout.
    - inversion Em5; subst. exists QNone. split; [apply okx_none|]. split; [reflexivity|].
      destruct Hxp as [->|[_ [fd ->]]]; [exact H4|]. eapply Q_xf_empty; [exact Eout|exact H4].
    - destruct (l_et (st w4)) eqn:Eb.
      + inversion Em5; subst. exists QNone. split; [apply okx_none|]. split; [reflexivity|].
        destruct Hxp as [->|[A _]]; [exact H4|congruence].
      + destruct Hxp as [->|[_ [fd ->]]].
        * exists QNone. split; [apply okx_none|]. split; [reflexivity|].
          pose proof (Q_epctl_arm et [] _ _ _ _ "mod" _ _ _ _ _ ltac:(cbn; lia) H4 Em5) as G.
          eapply Inv_weaken; [|exact G]. intros h x _ [HR _]. exact HR.
        * apply Q_reanchor_xf in H4.
          pose proof (Q_arm_x et [] _ _ _ _ _ "mod" _ _ _ _ ltac:(cbn; lia) Eb H4 Em5) as G.
          destruct r5; [exists QNone; split; [apply okx_none|split; [reflexivity|exact G]]|..];
            (eexists; split; [apply okx_xf|split; [discriminate|exact G]]). }
  destruct H5 as (xa5 & Hok5 & Hnil & H5).
  assert (Hcl : forall e r w', el_close fuel cid e w5 = (r, w') -> QINV (RT QNone None) w').
  { intros e r0 w0 Ec. eapply (mq_close _ _ _ (MB fuel)); [exact Hok5|left; reflexivity|exact H5|exact Ec]. }
  destruct r5; try (eapply Hcl; exact E).
  rewrite (Hnil eq_refl) in H5.
  destruct act; [inversion E; subst; exact H5|eapply Hcl; exact E|inversion E; subst; exact H5].
Qed.

(* ------------------------------------------------------------------ *)
(* el_register0 *)

Lemma RQ_set_reg : forall u x s cid fd ub,
  RT (QReg cid fd ub) None u x s -> RT (QRegd cid) None u x (set_reg s (aset fd cid (l_reg s))).
Proof.
  intros u [p b] s cid fd ub [R1 R2 R3 R4 R5 R6 R7 R8 R9 R10 R11 R12 R13]. cbn [fst snd qsem] in *.
  destruct R13 as (X1 & X2 & X3 & X4).
  assert (Hno : c_opened (getc s cid) = false).
  { destruct (c_opened (getc s cid)) eqn:Eo; [|reflexivity]. destruct (R5 cid Eo) as [A|[_ []]]. congruence. }
  constructor; cbn [fst snd set_reg l_reg l_next l_et]; auto.
  - intros c Ho. change (getc (set_reg s _) c) with (getc s c).
    destruct (R5 c Ho) as [A|[_ []]]. left. rewrite alookup_aset.
    destruct (Z.eqb_spec (c_fd (getc s c)) fd) as [Ef|N]; [congruence|exact A].
  - intros fd0 c H. change (getc (set_reg s _) c) with (getc s c). apply in_aset in H. rewrite alookup_aset.
    destruct H as [[-> ->]|[H N]].
    + rewrite Z.eqb_refl. auto.
    + destruct (Z.eqb_spec fd0 fd); [congruence|]. apply R6. exact H.
  - intros fd0 c H D. change (getc (set_reg s _) c) with (getc s c). apply in_aset in H.
    destruct H as [[-> ->]|[H N]]; [auto|]. destruct (R7 _ _ H D) as [A|[A|A]]; [auto|auto|discriminate].
  - intros c [].
  - intros fd0 c H. change (getc (set_reg s _) c) with (getc s c). apply in_aset in H.
    destruct H as [[-> ->]|[H N]].
    + intros A D E F _. exfalso. apply F. apply R10; auto.
    + intros A D E F _. apply (R11 fd0 c H A D E F). intros [].
  - unfold qsem. change (getc (set_reg s (aset fd cid (l_reg s))) cid) with (getc s cid).
    change (l_reg (set_reg s (aset fd cid (l_reg s)))) with (aset fd cid (l_reg s)).
    split; [exact X1|]. rewrite alookup_aset, X2, Z.eqb_refl. reflexivity.
Qed.

Lemma RQ_regd_udp : forall cid u x s, RT (QRegd cid) None u x s -> c_udp (getc s cid) = true ->
  RT QNone None u x s.
Proof.
  intros cid u x s [R1 R2 R3 R4 R5 R6 R7 R8 R9 R10 R11 R12 R13] Hu.
  constructor; auto.
  - intros fd c H D. destruct (R7 _ _ H D) as [A|[A|A]]; auto. inversion A; subst c. auto.
  - exact I.
Qed.

Lemma el_register0_inv : forall fuel cid w r w',
  QINV (RT (QLt cid) None) w -> el_register0 fuel cid w = (r, w') -> QINV (RT QNone None) w'.
Proof.
  intros fuel cid w r w' HI E. unfold el_register0 in E.
  unfold fd_in_use in E. destruct (alookup (c_fd (wc w cid)) (l_reg (st w))) eqn:Er.
  { inversion E; subst. dsq. }
  set (fd := c_fd (wc w cid)) in *. set (ub := c_udp (wc w cid)) in *.
  assert (H0 : QINV (RT (QReg cid fd ub) None) w).
  { eapply (Q_xa_weaken et [] [] [] (QLt cid)); [discriminate|intros c []| |exact HI].
    intros u x HR. pose proof (q_x _ _ _ _ _ _ _ _ _ HR) as X. cbn [qsem] in *. unfold wc in *. auto. }
  assert (Hfree : forall u p b s, RT (QReg cid fd ub) None u (p, b) s ->
     forall c, In (fd, c) (l_reg s) -> c_udp (getc s c) = false -> pdead p c = false -> c_out (getc s c) <> [] -> False).
  { intros u p b s HR c Hin _ _ _. pose proof (q_x _ _ _ _ _ _ _ _ _ HR) as X. cbn [qsem] in X.
    eapply noreg_free; [|exact Hin]. tauto. }
  destruct (epctl "add" fd _ _ w) as [r1 w1] eqn:Ee.
  pose proof (Q_epctl_free et [] _ _ _ _ _ _ _ _ _ _ _ Hfree H0 Ee) as H1.
  assert (Hfail : forall r w', (let '(_, w2) := sys "close" [AInt fd] w1 in (RErr, wsetc w2 cid (c_release (wc w2 cid)))) = (r, w') ->
            QINV (RT QNone None) w').
  { intros r0 w0 E0. destruct (sys "close" _ w1) as [k w2] eqn:Es.
    pose proof (Q_sys_close et [] _ _ _ _ _ _ _ _ Hfree H1 Es) as H2. inversion E0; subst.
    eapply Inv_wsetc; [exact H2|]. intros [] [p b] _ HR. unfold wc.
    pose proof (q_x _ _ _ _ _ _ _ _ _ HR) as X. cbn [qsem] in X. destruct X as (X1 & X2 & X3 & X4).
    assert (Hno : c_opened (getc (st w2) cid) = false).
    { destruct (c_opened (getc (st w2) cid)) eqn:Eo; [|reflexivity].
      destruct (q_reg _ _ _ _ _ _ _ _ _ HR cid Eo) as [A|[_ []]]. congruence. }
    assert (HR' : RT QNone None tt (p, b) (st w2)).
    { eapply RQ_xa_weaken; [exact HR|discriminate|intros c []|exact I]. }
    apply RQ_setc; auto; unfold c_release; destruct (c_udp (getc (st w2) cid)) eqn:Eu; cbn [c_fd c_opened c_udp c_out]; auto;
      try discriminate; try congruence. }
  destruct r1; try (eapply Hfail; exact E).
  set (w2 := with_st w1 _) in E.
  destruct (ub && c_remote (wc w cid)) eqn:Eb.
  - assert (H2 : QINV (RT QNone None) w2).
    { subst w2. eapply Inv_with_st; [exact H1|]. intros [] x _ HR.
      pose proof (q_x _ _ _ _ _ _ _ _ _ HR) as X. cbn [qsem] in X. destruct X as (X1 & X2 & X3 & X4).
      apply RQ_regd_udp with (cid := cid); [apply RQ_set_reg with (ub := ub); exact HR|].
      change (getc (set_reg (st w1) _) cid) with (getc (st w1) cid). rewrite X4.
      destruct ub; [reflexivity|discriminate]. }
    clearbody w2. inversion E; subst. exact H2.
  - assert (H2 : QINV (RT (QRegd cid) None) w2).
    { subst w2. eapply Inv_with_st; [exact H1|]. intros [] x _ HR. apply RQ_set_reg with (ub := ub). exact HR. }
    eapply el_open_inv; [exact H2|exact E].
Qed.

(* ------------------------------------------------------------------ *)
(* results: a read follow-up may only be left open by a shutdown *)

Definition rpost (r : res) (w' : world) : Prop :=
  exists rf, (r <> RShutdown -> rf = None) /\ QINV (RT QNone rf) w'.

Lemma rpost_rf : forall r cid w', QINV (RT QNone (rf_of r cid)) w' -> rpost r w'.
Proof. intros r cid w' H. exists (rf_of r cid). split; [|exact H]. destruct r; try reflexivity. intros N. congruence. Qed.
Lemma rpost_none : forall r w', QINV (RT QNone None) w' -> rpost r w'.
Proof. intros r w' H. exists None. split; [reflexivity|exact H]. Qed.

Lemma el_close_inv : forall fuel cid e w r w' rf,
  QINV (RT QNone rf) w -> el_close fuel cid e w = (r, w') -> QINV (RT QNone rf) w'.
Proof.
  intros fuel cid e w r w' rf HI E.
  eapply (mq_close _ _ _ (MB fuel)); [apply okx_none|left; reflexivity|exact HI|exact E].
Qed.

Lemma el_wake_inv : forall fuel cid w r w',
  QINV (RT QNone None) w -> el_wake fuel cid w = (r, w') -> QINV (RT QNone None) w'.
Proof.
  intros fuel cid w r w' HI E. unfold el_wake in E.
  destruct (negb (c_opened (wc w cid)) || _); [inversion E; subst; exact HI|].
  set (w1 := emit _ w) in E.
  assert (H1 : QINV (RT QNone None) w1) by (subst w1; apply Q_emit; [qoign|exact HI]).
  clearbody w1.
  destruct (handler fuel cid w1) as [[act rep] w2] eqn:Eh.
  pose proof (mq_handler _ _ _ (MB fuel) _ _ _ _ _ _ _ eq_refl H1 Eh) as H2.
  destruct act; [inversion E; subst; exact H2|eapply el_close_inv; eassumption|inversion E; subst; exact H2].
Qed.

Lemma process_io_inv : forall fuel cid ev w r w',
  QINV (RT QNone None) w -> process_io fuel cid ev w = (r, w') -> QINV (RT QNone (rf_of r cid)) w'.
Proof.
  intros fuel cid ev w r w' HI E. unfold process_io in E.
  destruct (has ev _ && negb (has ev _)).
  { apply Q_rf_post. eapply el_close_inv; [|exact E].
    eapply Inv_wsetc; [exact HI|]. intros [] [p b] _ HR. unfold wc.
    apply RQ_setc; auto; cbn [c_set_out c_fd c_opened c_udp c_out]; try discriminate; congruence. }
  match type of E with (let '(r1, w1) := ?m in _) = _ => destruct m as [r1 w1] eqn:E1 end.
  assert (H1 : QINV (RT QNone None) w1).
  { match type of E1 with (if ?b then _ else _) = _ => destruct b end.
    - eapply (mq_elwrite _ _ _ (MB fuel)); [left; reflexivity|left; reflexivity|exact HI|exact E1].
    - inversion E1; subst; exact HI. }
  destruct r1; try (inversion E; subst; apply Q_rf_post; exact H1).
  match type of E with (let '(r2, w2) := ?m in _) = _ => destruct m as [r2 w2] eqn:E2 end.
  assert (H2 : QINV (RT QNone (rf_of r2 cid)) w2).
  { match type of E2 with (if ?b then _ else _) = _ => destruct b end.
    - eapply el_read_inv; [left; reflexivity|exact H1|left; reflexivity|exact E2].
    - inversion E2; subst; exact H1. }
  destruct r2; try (inversion E; subst; exact H2).
  cbn [rf_of] in H2.
  destruct (has ev _ && c_opened (wc w2 cid)) eqn:Eg; [|inversion E; subst; exact H2].
  destruct (negb (has ev _)).
  - apply Q_rf_post. eapply el_close_inv; eassumption.
  - eapply el_read_inv; [left; reflexivity| |left; reflexivity|exact E].
    apply Q_wsetc_same; auto.
Qed.

(* ------------------------------------------------------------------ *)
(* el_read_udp, el_accept *)

Lemma RQ_ops_add_none : forall nd W ops xa rf u x s c,
  RQn nd W ops xa rf u x s -> c < l_next s -> c_udp (getc s c) = true -> c_opened (getc s c) = false ->
  RQn nd W ((c, None) :: ops) xa rf u x s.
Proof.
  intros nd W ops xa rf u x s c [R1 R2 R3 R4 R5 R6 R7 R8 R9 R10 R11 R12 R13] Hlt Hu Ho. constructor; auto.
  intros c0 k [E|H]; [inversion E; subst; unfold opsem; auto|auto].
Qed.

Lemma RQ_ops_nil : forall nd W ops xa rf u x s, RQn nd W ops xa rf u x s -> RQn nd W [] xa rf u x s.
Proof.
  intros nd W ops xa rf u x s [R1 R2 R3 R4 R5 R6 R7 R8 R9 R10 R11 R12 R13]. constructor; auto. intros c k [].
Qed.

Lemma el_read_udp_inv : forall fuel fd lst w r w',
  QINV (RT QNone None) w -> el_read_udp fuel fd lst w = (r, w') -> QINV (RT QNone None) w'.
Proof.
  intros fuel fd lst w r w' HI E. unfold el_read_udp in E.
  destruct (sys "recvfrom" _ w) as [k w1] eqn:Es.
  assert (H1 : QINV (RT QNone None) w1) by (eapply Q_sys; [|exact HI|exact Es]; qoign).
  destruct k as [n extra|e|].
  2:{ destruct (is_eagain e); inversion E; subst; exact H1. }
  2:{ inversion E; subst; exact H1. }
  destruct (negb _ || _ || _); [inversion E; subst; dsq|].
  set (data := match extra with ABytes b :: _ => b | _ => [] end) in *.
  destruct lst.
  - set (cid := l_next (st w1)) in *.
    set (w3 := emit _ (with_st w1 _)) in E.
    assert (H3 : QINV (RQn [] [] [(cid, None)] QNone None) w3).
    { subst w3. apply Q_emit; [qoign|]. eapply Inv_with_st; [exact H1|]. intros [] x _ HR.
      apply RQ_ops_add_none.
      - apply RQ_fresh; [exact HR|reflexivity|reflexivity].
      - cbn [set_next l_next]. subst cid. lia.
      - rewrite getc_set_next, getc_setc, Z.eqb_refl. reflexivity.
      - rewrite getc_set_next, getc_setc, Z.eqb_refl. reflexivity. }
    clearbody w3.
    destruct (handler fuel cid w3) as [[act rep] w4] eqn:Eh.
    pose proof (mq_handler _ _ _ (MB fuel) _ _ _ _ _ _ _ eq_refl H3 Eh) as H4.
    assert (H5 : QINV (RT QNone None) (wsetc w4 cid (c_release (wc w4 cid)))).
    { eapply Inv_wsetc; [exact H4|]. intros [] [p b] _ HR. unfold wc.
      assert (Hin : In (cid, @None Z) [(cid, None)]) by (left; reflexivity).
      destruct (q_ops _ _ _ _ _ _ _ _ _ HR _ _ Hin) as [_ [Hu Ho]].
      apply RQ_ops_nil in HR.
      apply RQ_setc; auto; unfold c_release; rewrite Hu; cbn [c_fd c_opened c_udp c_out]; auto; try discriminate. }
    destruct act; inversion E; subst; exact H5.
  - destruct (alookup fd (l_reg (st w1))) as [cid|]; [|inversion E; subst; dsq].
    set (w3 := emit _ (wsetc _ cid _)) in E.
    assert (H3 : QINV (RT QNone None) w3).
    { subst w3. apply Q_emit; [qoign|]. apply Q_wsetc_same; rewrite ?wc_ghost; auto. apply Q_emit; [qoign|exact H1]. }
    clearbody w3.
    destruct (handler fuel cid w3) as [[act rep] w4] eqn:Eh.
    pose proof (mq_handler _ _ _ (MB fuel) _ _ _ _ _ _ _ eq_refl H3 Eh) as H4.
    destruct act; inversion E; subst; exact H4.
Qed.

Lemma el_accept_inv : forall fuel lfd is_udp w r w',
  QINV (RT QNone None) w -> el_accept fuel lfd is_udp w = (r, w') -> QINV (RT QNone None) w'.
Proof.
  intros fuel lfd is_udp w r w' HI E. unfold el_accept in E.
  destruct is_udp; [eapply el_read_udp_inv; eassumption|].
  destruct (sys "accept" _ w) as [k w1] eqn:Es.
  assert (H1 : QINV (RT QNone None) w1) by (eapply Q_sys; [|exact HI|exact Es]; qoign).
  destruct k as [nfd extra|e|].
  2:{ destruct (_ || _ || _ || _); inversion E; subst; exact H1. }
  2:{ inversion E; subst; exact H1. }
  destruct (fd_in_use (st w1) nfd); [inversion E; subst; dsq|].
  eapply el_register0_inv; [|exact E].
  eapply Inv_with_st; [exact H1|]. intros [] x _ HR.
  eapply RQ_xa_weaken; [apply RQ_fresh; [exact HR|reflexivity|reflexivity]|discriminate|intros c []|].
  cbn [qsem set_next l_next]. lia.
Qed.

(* ------------------------------------------------------------------ *)
(* dispatch, tasks, chores, events *)

Lemma dispatch_inv : forall fuel fd ev w r w',
  QINV (RT QNone None) w -> dispatch fuel fd ev w = (r, w') -> rpost r w'.
Proof.
  intros fuel fd ev w r w' HI E. unfold dispatch in E.
  destruct (alookup fd (l_reg (st w))) as [cid|] eqn:Er.
  { destruct (polopt (st w) && c_udp (wc w cid)).
    - apply rpost_none. eapply el_read_udp_inv; eassumption.
    - apply (rpost_rf r cid). eapply process_io_inv; eassumption. }
  destruct (alookup fd (l_listeners (st w))) as [is_udp|].
  { apply rpost_none. eapply el_accept_inv; eassumption. }
  destruct (polopt (st w)); [inversion E; subst; apply rpost_none; exact HI|].
  apply rpost_none.
  assert (H0 : QINV (RT (QNoReg fd) None) w).
  { apply Q_xa_set; [|exact HI]. intros u x HR. exact Er. }
  eapply (Q_xa_drop et [] [] [] (QNoReg fd)); [intros c []|discriminate|].
  eapply (Q_epctl_free et []); [|exact H0|exact E].
  intros u p b s HR c Hin _ _ _. pose proof (q_x _ _ _ _ _ _ _ _ _ HR) as X. cbn [qsem] in X.
  eapply noreg_free; [exact X|exact Hin].
Qed.

Definition tpre (t : task) : qxa := match t with TRegister c _ => QLt c | _ => QNone end.

Lemma run_task_inv : forall fuel t w r w',
  QINV (RT (tpre t) None) w -> run_task fuel t w = (r, w') -> rpost r w'.
Proof.
  intros fuel t w r w' HI E. destruct t; cbn [run_task tpre] in *.
  - destruct (el_register0 fuel cid w) as [r1 w1] eqn:E1.
    pose proof (el_register0_inv _ _ _ _ _ HI E1) as H1. inversion E; subst. apply rpost_none.
    destruct cb; [apply Q_emit; [qoign|exact H1]|exact H1].
  - apply rpost_none. destruct (negb (c_opened (wc w cid))).
    { inversion E; subst. destruct cb; [apply Q_emit; [qoign|exact HI]|exact HI]. }
    destruct (conn_write fuel cid data w) as [[n ok] w1] eqn:E1.
    assert (H1 : QINV (RT QNone None) w1).
    { eapply (mq_write _ _ _ (MB fuel)); [left; reflexivity|exact HI|exact E1]. }
    inversion E; subst. destruct cb; [apply Q_emit; [qoign|exact H1]|exact H1].
  - apply rpost_none. destruct (negb (c_opened (wc w cid))).
    { inversion E; subst. destruct cb; [apply Q_emit; [qoign|exact HI]|exact HI]. }
    destruct (conn_writev fuel cid segs w) as [[n ok] w1] eqn:E1.
    assert (H1 : QINV (RT QNone None) w1).
    { eapply (mq_writev _ _ _ (MB fuel)); [left; reflexivity|exact HI|exact E1]. }
    inversion E; subst. destruct cb; [apply Q_emit; [qoign|exact H1]|exact H1].
  - destruct (el_wake fuel cid w) as [r1 w1] eqn:E1.
    pose proof (el_wake_inv _ _ _ _ _ HI E1) as H1. inversion E; subst. apply rpost_none.
    destruct cb; [apply Q_emit; [qoign|exact H1]|exact H1].
  - destruct (el_close fuel cid true w) as [r1 w1] eqn:E1.
    pose proof (el_close_inv _ _ _ _ _ _ _ HI E1) as H1. inversion E; subst. apply rpost_none.
    destruct cb; [apply Q_emit; [qoign|exact H1]|exact H1].
  - apply (rpost_rf r cid). eapply el_read_inv; [left; reflexivity|exact HI|left; reflexivity|exact E].
  - apply rpost_none. eapply (mq_elwrite _ _ _ (MB fuel)); [left; reflexivity|left; reflexivity|exact HI|exact E].
  - inversion E; subst. apply rpost_none. apply Q_emit; [qoign|exact HI].
  - inversion E; subst. apply rpost_none. exact HI.
Qed.

(* taking a task from a queue *)
Lemma RQ_dequeue : forall u x s t u' l' f',
  RT QNone None u x s -> In t (tasks s) ->
  (forall c cb, In (TRegister c cb) (u' ++ l') -> In (TRegister c cb) (tasks s)) ->
  RT (tpre t) None u x (set_queues s u' l' f').
Proof.
  intros u x s t u' l' f' HR Hin Hsub.
  assert (HR1 : RT (tpre t) None u x s).
  { eapply RQ_xa_weaken; [exact HR|discriminate|intros c []|].
    destruct t; cbn [tpre qsem]; try exact I. eapply (q_task _ _ _ _ _ _ _ _ _ HR). exact Hin. }
  eapply RQ_frame; [exact HR1| | | | |]; try reflexivity. exact Hsub.
Qed.

Lemma rpost_cont : forall r w, r <> RShutdown -> rpost r w -> QINV (RT QNone None) w.
Proof. intros r w N (rf & Hrf & H). rewrite (Hrf N) in H. exact H. Qed.

Lemma drain_urgent_inv : forall fuel w r w',
  QINV (RT QNone None) w -> drain_urgent fuel w = (r, w') -> rpost r w'.
Proof.
  induction fuel as [|f IH]; intros w r w' HI E; cbn [drain_urgent] in E.
  { inversion E; subst. apply rpost_none. dsq. }
  destruct (halt w); [inversion E; subst; apply rpost_none; exact HI|].
  destruct (l_urgent (st w)) as [|t rest] eqn:Eu; [inversion E; subst; apply rpost_none; exact HI|].
  set (w1 := with_st w _) in E.
  assert (H1 : QINV (RT (tpre t) None) w1).
  { subst w1. eapply Inv_with_st; [exact HI|]. intros [] x _ HR. apply RQ_dequeue; [exact HR| |].
    - unfold tasks. rewrite Eu. left. reflexivity.
    - intros c cb H. unfold tasks. rewrite Eu. apply in_app_or in H. apply in_or_app.
      destruct H; [left; right; assumption|right; assumption]. }
  clearbody w1.
  destruct (run_task f t w1) as [r1 w2] eqn:Et.
  pose proof (run_task_inv _ _ _ _ _ H1 Et) as H2.
  destruct r1; try (eapply IH; [eapply rpost_cont; [|exact H2]; discriminate|exact E]).
  inversion E; subst. exact H2.
Qed.

Lemma drain_low_inv : forall fuel k w r w',
  QINV (RT QNone None) w -> drain_low fuel k w = (r, w') -> rpost r w'.
Proof.
  induction fuel as [|f IH]; intros k w r w' HI E; cbn [drain_low] in E.
  { inversion E; subst. apply rpost_none. dsq. }
  destruct (halt w); [inversion E; subst; apply rpost_none; exact HI|].
  destruct (k <=? 0); [inversion E; subst; apply rpost_none; exact HI|].
  destruct (l_low (st w)) as [|t rest] eqn:Eu; [inversion E; subst; apply rpost_none; exact HI|].
  set (w1 := with_st w _) in E.
  assert (H1 : QINV (RT (tpre t) None) w1).
  { subst w1. eapply Inv_with_st; [exact HI|]. intros [] x _ HR. apply RQ_dequeue; [exact HR| |].
    - unfold tasks. rewrite Eu. apply in_or_app. right. left. reflexivity.
    - intros c cb H. unfold tasks. rewrite Eu. apply in_app_or in H. apply in_or_app.
      destruct H; [left; assumption|right; right; assumption]. }
  clearbody w1.
  destruct (run_task f t w1) as [r1 w2] eqn:Et.
  pose proof (run_task_inv _ _ _ _ _ H1 Et) as H2.
  destruct r1; try (eapply IH; [eapply rpost_cont; [|exact H2]; discriminate|exact E]).
  inversion E; subst. exact H2.
Qed.

Lemma chores_inv : forall fuel w r w',
  QINV (RT QNone None) w -> chores fuel w = (r, w') -> rpost r w'.
Proof.
  intros fuel w r w' HI E. unfold chores in E.
  destruct (drain_urgent fuel w) as [r1 w1] eqn:E1.
  pose proof (drain_urgent_inv _ _ _ _ HI E1) as H1.
  assert (Hgo : r1 <> RShutdown ->
    match drain_low fuel (l_maxlow (st w1)) w1 with
    | (RShutdown, w2) => (RShutdown, w2)
    | (_, w2) =>
      let s := set_flag (st w2) false in
      match l_urgent s, l_low s with
      | [], [] => (RNil, with_st w2 s)
      | _, _ =>
          let '(_, w3) := efd_write (S (List.length (inp w2))) (with_st w2 (set_flag s true)) in
          (RNil, w3)
      end
    end = (r, w') -> rpost r w').
  { intros N E'. pose proof (rpost_cont _ _ N H1) as H1'.
    destruct (drain_low fuel _ w1) as [r2 w2] eqn:E2.
    pose proof (drain_low_inv _ _ _ _ _ H1' E2) as H2.
    assert (Hgo2 : r2 <> RShutdown ->
      (let s := set_flag (st w2) false in
      match l_urgent s, l_low s with
      | [], [] => (RNil, with_st w2 s)
      | _, _ =>
          let '(_, w3) := efd_write (S (List.length (inp w2))) (with_st w2 (set_flag s true)) in
          (RNil, w3)
      end) = (r, w') -> rpost r w').
    { intros N2 E''. pose proof (rpost_cont _ _ N2 H2) as H2'. cbv zeta in E''.
      assert (Hf : forall b, QINV (RT QNone None) (with_st w2 (set_flag (st w2) b))).
      { intros b. eapply Inv_with_st; [exact H2'|]. intros [] x _ HR. apply RQ_flag. exact HR. }
      assert (Hef : (let '(_, w3) := efd_write (S (List.length (inp w2))) (with_st w2 (set_flag (set_flag (st w2) false) true)) in
          (RNil, w3)) = (r, w') -> rpost r w').
      { intros E3. destruct (efd_write _ _) as [r3 w3] eqn:Ef. inversion E3; subst. apply rpost_none.
        eapply Q_efd_write; [|exact Ef]. apply (Hf true). }
      destruct (l_urgent (set_flag (st w2) false)); [destruct (l_low (set_flag (st w2) false))|].
      - inversion E''; subst. apply rpost_none. apply Hf.
      - apply Hef. exact E''.
      - apply Hef. exact E''. }
    destruct r2; try (apply Hgo2; [discriminate|exact E']).
    inversion E'; subst. exact H2. }
  destruct r1; try (apply Hgo; [discriminate|exact E]).
  inversion E; subst. exact H1.
Qed.

Lemma events_inv : forall fuel n evs dc w r dc' w', (List.length evs <= n)%nat ->
  QINV (RT QNone None) w -> events fuel evs dc w = (r, dc', w') -> rpost r w'.
Proof.
  intros fuel. induction n as [|n IH]; intros evs dc w r dc' w' Hlen HI E.
  { destruct evs; [|cbn in Hlen; lia]. cbn [events] in E. inversion E; subst. apply rpost_none. exact HI. }
  destruct evs as [|a1 [|a2 rest]]; cbn [events] in E.
  - inversion E; subst. apply rpost_none. exact HI.
  - destruct a1; inversion E; subst; apply rpost_none; exact HI.
  - assert (Hl : (List.length rest <= n)%nat) by (cbn [List.length] in Hlen; lia).
    destruct a1 as [fd| |]; try (inversion E; subst; apply rpost_none; exact HI).
    destruct a2 as [ev| |]; try (inversion E; subst; apply rpost_none; exact HI).
    destruct (halt w); [inversion E; subst; apply rpost_none; exact HI|].
    destruct (fd =? l_efd (st w)); [eapply IH; eassumption|].
    destruct (dispatch fuel fd ev w) as [r1 w1] eqn:Ed.
    pose proof (dispatch_inv _ _ _ _ _ _ HI Ed) as H1.
    destruct r1; try (eapply IH; [exact Hl|eapply rpost_cont; [|exact H1]; discriminate|exact E]).
    + inversion E; subst. exact H1.
    + inversion E; subst. exact H1.
Qed.

Lemma close_conns_inv : forall fuel w rf,
  QINV (RT QNone rf) w -> QINV (RT QNone rf) (close_conns fuel w).
Proof.
  induction fuel as [|f IH]; intros w rf HI.
  { cbn [close_conns]. dsq. }
  rewrite close_conns_eq.
  destruct (halt w); [exact HI|].
  destruct (l_reg (st w)); [exact HI|].
  destruct (pull_gen true w) as [[[name args]|] w1] eqn:Ep.
  2:{ eapply Q_pull; eassumption. }
  pose proof (Q_pull _ _ _ _ _ _ _ _ _ _ HI Ep) as H1.
  destruct (String.eqb name "pick"); [|dsq].
  destruct args as [|[cid| |] [|? ?]]; try dsq.
  destruct (el_close f cid true w1) as [r2 w2] eqn:Ec.
  apply IH. eapply el_close_inv; eassumption.
Qed.

(* the markers at the top of a polling iteration *)
Lemma prog_step_pending : forall p c fd n,
  prog_step p (EOut ("g", [ASym "pending"; AInt c; AInt fd; AInt n])) =
  if (n <=? 0) || zmem c (p_dead p) || zmem c (p_dirty p) then Some p
  else if p_et p then (if zmem c (p_owed p) then Some p else None)
  else (if getd false fd (p_want_w p) then Some p else None).
Proof. reflexivity. Qed.

Lemma Q_pending : forall l w, (forall fc, In fc l -> In fc (l_reg (st w))) ->
  QINV (RT QNone None) w -> QINV (RT QNone None) (pending_fold l w).
Proof.
  unfold pending_fold. induction l as [|[fd c] l IH]; intros w Hsub HI; cbn [fold_left]; [exact HI|].
  assert (Hin : In (fd, c) (l_reg (st w))) by (apply Hsub; left; reflexivity).
  cbn [fst snd].
  destruct (c_udp (wc w c)) eqn:Eu.
  { apply IH; [intros fc H; apply Hsub; right; exact H|exact HI]. }
  apply IH; [intros fc H; rewrite st_emit; apply Hsub; right; exact H|].
  eapply Inv_emit; [exact HI|reflexivity|].
  intros [] [p b] _ HR. cbn [ustep]. exists (p, b). split; [|exact HR].
  unfold qstep, rdx. cbn [fst snd]. rewrite prog_step_pending.
  replace (if et then rd_step b _ else Some b) with (Some b) by (destruct et; reflexivity).
  destruct (q_et _ _ _ _ _ _ _ _ _ HR) as [_ Hpe]. cbn [fst] in Hpe.
  destruct ((zlen (c_out (wc w c)) <=? 0) || zmem c (p_dead p) || zmem c (p_dirty p)) eqn:Eg; [reflexivity|].
  apply Bool.orb_false_iff in Eg. destruct Eg as [Eg Edirty]. apply Bool.orb_false_iff in Eg. destruct Eg as [En Edead].
  assert (Hne : c_out (wc w c) <> []).
  { intros Hnil. rewrite Hnil in En. cbn in En. discriminate. }
  assert (Hs : served et p fd c).
  { unfold wc in *. apply (q_main _ _ _ _ _ _ _ _ _ HR fd c Hin Eu Edead); [left; exact Edirty|exact Hne|intros []]. }
  unfold served in Hs. rewrite Hpe. destruct et; rewrite Hs; reflexivity.
Qed.

Lemma Q_count : forall n w, QINV (RT QNone None) w ->
  QINV (RT QNone None) (emit ("g", [ASym "count"; AInt n; ABytes []]) w).
Proof.
  intros n w HI. eapply Inv_emit; [exact HI|reflexivity|].
  intros [] [p b] _ HR. cbn [ustep]. exists (p, b). split; [|exact HR].
  unfold qstep, rdx. cbn [fst snd prog_step].
  destruct (Bool.bool_dec et true) as [Het|Het].
  - destruct (q_rd _ _ _ _ _ _ _ _ _ HR Het) as [A|(c & A & _)]; [|discriminate].
    cbn [snd] in A. rewrite Het. unfold rd_step. cbn. rewrite A. reflexivity.
  - destruct et; [congruence|reflexivity].
Qed.

Definition RTrue (u : unit) (x : progst * rdst) (s : lstate) : Prop := True.

Lemma Q_true : forall (R : unit -> progst * rdst -> lstate -> Prop) w, QINV R w -> QINV RTrue w.
Proof. intros R w HI. eapply Q_weaken; [|exact HI]. intros; exact I. Qed.

Lemma polling_inv : forall fuel w, QINV (RT QNone None) w -> QINV RTrue (polling fuel w).
Proof.
  induction fuel as [|f IH]; intros w HI.
  { cbn [polling]. dsq. }
  rewrite polling_eq. cbv zeta.
  set (w0 := emit _ w).
  assert (H0 : QINV (RT QNone None) w0) by (subst w0; apply Q_count; exact HI).
  clearbody w0.
  pose proof (Q_pending (l_reg (st w0)) w0 (fun fc H => H) H0) as H1. unfold pending_fold in H1.
  match goal with |- context [pull ?x] => set (wp := x) in * end. clearbody wp.
  destruct (pull wp) as [[[name evs]|] w1] eqn:Ep.
  2:{ eapply Q_true. eapply Q_pull; eassumption. }
  pose proof (Q_pull _ _ _ _ _ _ _ _ _ _ H1 Ep) as H2.
  destruct (String.eqb name "wait"); [|dsq].
  destruct (events f evs false w1) as [[r dc] w2] eqn:Ee.
  pose proof (events_inv _ _ _ _ _ _ _ _ (le_n _) H2 Ee) as H3.
  assert (Hcl : forall w2, rpost r w2 -> QINV RTrue (close_conns f w2)).
  { intros w2' (rf & _ & H). eapply Q_true. apply close_conns_inv. exact H. }
  assert (Hgo : r <> RShutdown ->
     QINV RTrue (if dc then match chores f w2 with
            | (RShutdown, w3) => close_conns f w3
            | (_, w3) => polling f w3
            end else polling f w2)).
  { intros N. pose proof (rpost_cont _ _ N H3) as H3'.
    destruct dc; [|apply IH; exact H3'].
    destruct (chores f w2) as [r3 w3] eqn:Ec.
    pose proof (chores_inv _ _ _ _ H3' Ec) as H4.
    destruct r3; try (apply IH; eapply rpost_cont; [|exact H4]; discriminate).
    destruct H4 as (rf & _ & H4). eapply Q_true. apply close_conns_inv. exact H4. }
  destruct r; try (destruct dc; apply Hgo; discriminate).
  - apply Hcl. exact H3.
  - apply Hcl. exact H3.
Qed.

Lemma RQ_init : forall s, l_et s = et -> l_conns s = [] -> l_reg s = [] -> l_urgent s = [] -> l_low s = [] ->
  RT QNone None tt (q0 et) s.
Proof.
  intros s He Hc Hr Hu Hl.
  assert (G : forall c, getc s c = dummy_conn) by (intros c; unfold getc; rewrite Hc; reflexivity).
  constructor; unfold q0; cbn [fst snd p_et p_last r_full]; auto.
  - intros c. rewrite G. discriminate.
  - intros c cb. unfold tasks. rewrite Hu, Hl. intros [].
  - intros c. rewrite G. discriminate.
  - intros fd c. rewrite Hr. intros [].
  - intros fd c. rewrite Hr. intros [].
  - intros c [].
  - intros c k [].
  - intros c. rewrite G. reflexivity.
  - intros fd c. rewrite Hr. intros [].
  - exact I.
Qed.

End ET.

(* ------------------------------------------------------------------ *)
(* the two theorems *)

Lemma check_qstep : forall et t p b, check (qstep et) (p, b) t = true ->
  check prog_step p t = true /\ (et = true -> check rd_step b t = true).
Proof.
  intros et. induction t as [|e r IH]; intros p b H; cbn [check] in *; [split; reflexivity|].
  destruct (is_desync e); [split; reflexivity|].
  unfold qstep, rdx in H. cbn [fst snd] in H.
  destruct (prog_step p e) as [p'|]; [|discriminate].
  destruct et.
  - destruct (rd_step b e) as [b'|]; [|discriminate]. destruct (IH _ _ H) as [A B]. split; [exact A|intros _; apply B; reflexivity].
  - destruct (IH _ _ H) as [A B]. split; [exact A|discriminate].
Qed.

Lemma progress_both : forall i t, run_history i = Some t ->
  out_progress_ok (is_et i) t = true /\ in_progress_ok (is_et i) t = true.
Proof.
  intros i t E. unfold run_history in E. unfold is_et.
  destruct (init_world i) as [w0|] eqn:Ei; [|discriminate].
  inversion E; subst t. clear E.
  destruct (init_world_spec _ _ Ei) as (Hlog & Hh & Hc & Hr & Hu & Hl & Hn).
  set (et := l_et (st w0)).
  assert (H0 : Inv ustep (qstep et) tt (q0 et) (LoopProgressBlock.RQ et [] [] [] QNone None) w0).
  { unfold Inv. rewrite Hlog. cbn [rev run]. right. apply RQ_init; auto. }
  pose proof (polling_inv et (init_fuel i) w0 H0) as HF.
  apply Inv_check in HF.
  assert (HQ : check (qstep et) (q0 et) (rev (log (polling (init_fuel i) w0))) = true).
  { eapply check_cstep; [exact HF|]. apply check_total. intros h e. discriminate. }
  apply check_qstep in HQ. destruct HQ as [A B].
  split; [exact A|]. unfold in_progress_ok. destruct et eqn:Eet; [apply B; reflexivity|reflexivity].
Qed.

Theorem out_progress_holds : forall i t, run_history i = Some t -> out_progress_ok (is_et i) t = true.
Proof. intros i t E. exact (proj1 (progress_both i t E)). Qed.

Theorem in_progress_holds : forall i t, run_history i = Some t -> in_progress_ok (is_et i) t = true.
Proof. intros i t E. exact (proj2 (progress_both i t E)). Qed.

Print Assumptions out_progress_holds.
Print Assumptions in_progress_holds.
