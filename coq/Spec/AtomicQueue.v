(* The atomic FIFO queue: sequential specification, the vocabulary of
   concurrent histories with explicit linearization points, and the definition
   of linearizability that C13 proves (and C03 builds on).

   A history (log) is a list of events, NEWEST FIRST.  Besides invocation and
   response events it contains one event per linearization point:
     LinEnq   the enqueue takes effect (the item is appended),
     LinDeq   the dequeue takes effect (the first item is removed),
     EmptyAt  thread t observes, inside a Dequeue call, that the queue is empty
              (a pure observation; a Dequeue may return "empty" only after one).
   A log is linearizable when
     (1) replaying the linearization events in order on the sequential
         specification is legal (every LinDeq removes exactly the first item,
         every EmptyAt sees the empty queue), and
     (2) for every thread the events form well-bracketed operations: call, one
         linearization event of that very operation strictly inside the call
         interval, response carrying the result the specification gave at the
         linearization event. *)
From Coq Require Import List ZArith Bool Arith.
Import ListNotations.
Open Scope Z_scope.

(* ---- sequential specification ---- *)
Inductive qop (A : Type) := OpEnq (v : A) | OpDeq.
Inductive qres (A : Type) := ResEnq | ResDeq (r : option A).
Arguments OpEnq {A} v.
Arguments OpDeq {A}.
Arguments ResEnq {A}.
Arguments ResDeq {A} r.

Definition qstep {A} (q : list A) (o : qop A) : list A * qres A :=
  match o with
  | OpEnq v => (q ++ [v], ResEnq)
  | OpDeq => match q with
             | [] => ([], ResDeq None)
             | v :: q' => (q', ResDeq (Some v))
             end
  end.

(* ---- histories ---- *)
(* t = thread, id = unique identity of the enqueue operation / of its item *)
Inductive event :=
| CallEnq (t id : nat) (v : Z)
| CallDeq (t : nat)
| LinEnq (t id : nat) (v : Z)
| LinDeq (t id : nat) (v : Z)
| EmptyAt (t : nat)
| RetEnq (t : nat)
| RetDeq (t : nat) (r : option Z).

Definition ev_tid (e : event) : nat :=
  match e with
  | CallEnq t _ _ | CallDeq t | LinEnq t _ _ | LinDeq t _ _ | EmptyAt t | RetEnq t | RetDeq t _ => t
  end.

(* invocation or response of thread t *)
Definition is_boundary (t : nat) (e : event) : bool :=
  match e with
  | CallEnq t' _ _ | CallDeq t' | RetEnq t' | RetDeq t' _ => Nat.eqb t' t
  | _ => false
  end.

Definition item := (nat * Z)%type.

Definition item_eqb (a b : item) : bool := Nat.eqb (fst a) (fst b) && Z.eqb (snd a) (snd b).

(* (1) the linearization events, replayed on the sequential specification *)
Definition apply_ev (e : event) (q : list item) : option (list item) :=
  match e with
  | LinEnq _ id v => Some (fst (qstep q (OpEnq (id, v))))
  | LinDeq _ id v =>
      match qstep q OpDeq with
      | (q', ResDeq (Some it)) => if item_eqb it (id, v) then Some q' else None
      | _ => None
      end
  | EmptyAt _ =>
      match qstep q OpDeq with
      | (_, ResDeq None) => Some q
      | _ => None
      end
  | _ => Some q
  end.

Fixpoint replay (log : list event) : option (list item) :=
  match log with
  | [] => Some []
  | e :: older => match replay older with
                  | Some q => apply_ev e q
                  | None => None
                  end
  end.

(* (2) the per-thread bracket automaton *)
Inductive phase :=
| PIdle
| PEnqCalled (id : nat) (v : Z)     (* inside Enqueue, not yet linearized *)
| PEnqLinked (id : nat) (v : Z)     (* inside Enqueue, linearized *)
| PDeqCalled (seen_empty : bool)    (* inside Dequeue, not yet linearized *)
| PDeqTaken (v : Z)                 (* inside Dequeue, linearized with value v *)
| PBad.

Definition phase_step (ph : phase) (e : event) : phase :=
  match ph, e with
  | PIdle, CallEnq _ id v => PEnqCalled id v
  | PIdle, CallDeq _ => PDeqCalled false
  | PEnqCalled id v, LinEnq _ id' v' => if Nat.eqb id id' && Z.eqb v v' then PEnqLinked id v else PBad
  | PEnqLinked _ _, RetEnq _ => PIdle
  | PDeqCalled _, EmptyAt _ => PDeqCalled true
  | PDeqCalled _, LinDeq _ _ v => PDeqTaken v
  | PDeqCalled true, RetDeq _ None => PIdle
  | PDeqTaken v, RetDeq _ (Some v') => if Z.eqb v v' then PIdle else PBad
  | _, _ => PBad
  end.

Fixpoint tphase (t : nat) (log : list event) : phase :=
  match log with
  | [] => PIdle
  | e :: older => if Nat.eqb (ev_tid e) t then phase_step (tphase t older) e else tphase t older
  end.

Definition linearizable_log (log : list event) : Prop :=
  (exists q, replay log = Some q) /\ forall t, tphase t log <> PBad.

(* projections used to state the FIFO consequences; oldest first *)
Fixpoint enqs (log : list event) : list item :=
  match log with
  | [] => []
  | LinEnq _ id v :: older => enqs older ++ [(id, v)]
  | _ :: older => enqs older
  end.

Fixpoint deqs (log : list event) : list item :=
  match log with
  | [] => []
  | LinDeq _ id v :: older => deqs older ++ [(id, v)]
  | _ :: older => deqs older
  end.

Fixpoint call_ids (log : list event) : list nat :=
  match log with
  | [] => []
  | CallEnq _ id _ :: older => call_ids older ++ [id]
  | _ :: older => call_ids older
  end.

(* events that are neither a linearization event nor an observation of emptiness *)
Definition lin_free (e : event) : Prop :=
  match e with LinEnq _ _ _ | LinDeq _ _ _ | EmptyAt _ => False | _ => True end.
