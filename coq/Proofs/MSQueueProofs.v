(* C13 on the model: chain_inv, linearizability with explicit linearization
   points, and the corollaries the property names. *)
From GV Require Import Lib.Trace Lib.Interleave Spec.AtomicQueue Model.MSQueue
  Proofs.MSQueueBase Proofs.MSQueueInv Proofs.AtomicQueueProofs.
From Coq Require Import Lia Arith.
Open Scope Z_scope.
Open Scope list_scope.

Notation ms_reachable := (reachable ms_init ms_step).

(* ---- chain_inv and linearizability ---- *)
Theorem chain_inv_reachable : forall s, ms_reachable s -> chain_inv s.
Proof. intros s R. apply inv_chain. apply inv_reachable. exact R. Qed.

Lemma pre_link_ok : forall s t th, pre_link s t th -> tphase t (g_hist s) <> PBad.
Proof. intros s t th [n [_ [_ [_ T]]]]. rewrite T. discriminate. Qed.

Lemma in_deq_ok : forall s t, in_deq s t -> tphase t (g_hist s) <> PBad.
Proof. intros s t [b T]. rewrite T. discriminate. Qed.

Lemma thread_phase_ok : forall s t, Inv s -> tphase t (g_hist s) <> PBad.
Proof.
  intros s t I. pose proof (inv_threads _ I t) as T. unfold thread_inv in T.
  destruct (t_pc (get_thread (threads s) t)).
  - rewrite T. discriminate.
  - eapply pre_link_ok; eauto.
  - destruct T as [P _]. eapply pre_link_ok; eauto.
  - destruct T as [P _]. eapply pre_link_ok; eauto.
  - destruct T as [P _]. eapply pre_link_ok; eauto.
  - destruct T as [n [i [_ [_ [_ T]]]]]. rewrite T. discriminate.
  - destruct T as [n T]. rewrite T. discriminate.
  - destruct T as [P _]. eapply pre_link_ok; eauto.
  - eapply in_deq_ok; eauto.
  - destruct T as [P _]. eapply in_deq_ok; eauto.
  - destruct T as [P _]. eapply in_deq_ok; eauto.
  - destruct T as [P _]. eapply in_deq_ok; eauto.
  - destruct T as [P _]. eapply in_deq_ok; eauto.
  - destruct T as [P _]. eapply in_deq_ok; eauto.
  - rewrite T. discriminate.
  - destruct T.
Qed.

Theorem linearizable : forall s, ms_reachable s ->
  replay (g_hist s) = Some (absq_items s) /\ forall t, tphase t (g_hist s) <> PBad.
Proof.
  intros s R. apply inv_reachable in R. split; [apply (inv_replay _ R)|].
  intro t. apply thread_phase_ok. exact R.
Qed.

Corollary linearizable_log_reachable : forall s, ms_reachable s -> linearizable_log (g_hist s).
Proof. intros s R. destruct (linearizable s R) as [A B]. split; eauto. Qed.

Lemma enq_ids_nodup : forall s, Inv s -> NoDup (map fst (enqs (g_hist s))).
Proof.
  intros s I. destruct (inv_chain _ I) as [N _]. rewrite (inv_enqs _ I) in N.
  apply NoDup_cons_iff in N. tauto.
Qed.

(* ---- what one step does to the history and to the abstract queue ---- *)
Lemma hist_step : forall s t c s' o, tstep s t c = (s', o) ->
  g_hist s' = g_hist s \/ exists e, g_hist s' = e :: g_hist s /\ ev_tid e = t.
Proof.
  intros s t c s' o H. unfold tstep, crash, cas_tail in H.
  destruct (t_pc (get_thread (threads s) t)), c;
    repeat (match type of H with
            | context [ptr_eqb ?a ?b] => destruct (ptr_eqb a b)
            | context [is_nil ?a] => destruct (is_nil a)
            | context [match ?x with _ => _ end] => destruct x
            end; cbn [fst snd andb] in H);
    injection H as <- _; cbn; eauto.
Qed.

(* The ghost abstract queue evolves as the sequential specification: a step
   either leaves it unchanged or is one linearization event applied to it. *)
Theorem absq_step : forall s l s', ms_reachable s -> ms_step s l s' ->
  (g_hist s' = g_hist s /\ absq_items s' = absq_items s) \/
  (exists e, g_hist s' = e :: g_hist s /\ ev_tid e = fst (fst l) /\
             apply_ev e (absq_items s) = Some (absq_items s')).
Proof.
  intros s [[t c] o] s' R H. unfold ms_step in H. cbn in H.
  assert (R' : ms_reachable s'). { eapply reach_step with (l := ((t, c), o)); [exact R|]. unfold ms_step. cbn. exact H. }
  destruct (linearizable _ R) as [A _]. destruct (linearizable _ R') as [A' _].
  destruct (hist_step _ _ _ _ _ H) as [E|[e [E Et]]].
  - left. split; auto. rewrite E in A'. congruence.
  - right. exists e. splits; auto. rewrite E in A'. cbn in A'. rewrite A in A'. exact A'.
Qed.

(* ---- positions only move forward; chain and history are append-only ---- *)
Definition advances (s s' : gstate) : Prop :=
  (g_h s <= g_h s')%nat /\ (g_t s <= g_t s')%nat /\
  (exists suf, g_chain s' = g_chain s ++ suf) /\ (exists newer, g_hist s' = newer ++ g_hist s).

Lemma advances_step : forall s t c s' o, tstep s t c = (s', o) -> advances s s'.
Proof.
  intros s t c s' o H. unfold advances. unfold tstep, crash, cas_tail in H.
  destruct (t_pc (get_thread (threads s) t)), c;
    repeat (match type of H with
            | context [ptr_eqb ?a ?b] => destruct (ptr_eqb a b)
            | context [is_nil ?a] => destruct (is_nil a)
            | context [match ?x with _ => _ end] => destruct x
            end; cbn [fst snd andb] in H);
    injection H as <- _; cbn; splits; auto;
    try (exists []; rewrite app_nil_r; reflexivity);
    try (exists []; reflexivity);
    try (eexists [_]; reflexivity); try (eexists; reflexivity).
Qed.

Theorem monotone : forall s tr s', ms_reachable s -> exec ms_step s tr s' -> advances s s'.
Proof.
  intros s tr s'. apply monotone_rule.
  - intro x. unfold advances. splits; auto; exists []; [rewrite app_nil_r|]; reflexivity.
  - intros a b c [A1 [A2 [[s1 A3] [n1 A4]]]] [B1 [B2 [[s2 B3] [n2 B4]]]]. unfold advances. splits; try lia.
    + exists (s1 ++ s2). rewrite B3, A3, app_assoc. reflexivity.
    + exists (n2 ++ n1). rewrite B4, A4, app_assoc. reflexivity.
  - intros x [[t c] o] y _ H. unfold ms_step in H. cbn in H. eapply advances_step; eauto.
Qed.

(* ---- the FIFO master equation and its consequences ---- *)
Theorem fifo_equation : forall s, ms_reachable s -> enqs (g_hist s) = deqs (g_hist s) ++ absq_items s.
Proof. intros s R. apply replay_fifo. apply (linearizable s R). Qed.

(* every enqueued task is dequeued at most once; nothing is dequeued that was not enqueued *)
Theorem dequeued_at_most_once : forall s, ms_reachable s ->
  NoDup (map fst (deqs (g_hist s))) /\
  (forall it, In it (deqs (g_hist s)) -> In it (enqs (g_hist s))) /\
  (forall it, In it (deqs (g_hist s)) -> ~ In (fst it) (map fst (absq_items s))).
Proof.
  intros s R. pose proof (inv_reachable _ R) as I.
  apply deqs_nodup; [apply (inv_replay _ I)|apply enq_ids_nodup; exact I].
Qed.

Theorem never_invented : forall s newer t v older, ms_reachable s ->
  g_hist s = newer ++ RetDeq t (Some v) :: older ->
  exists id t' l1 l2 l3 l4,
    older = l1 ++ LinDeq t id v :: l2 ++ LinEnq t' id v :: l3 ++ CallEnq t' id v :: l4 /\
    (forall e, In e l1 -> is_boundary t e = false).
Proof.
  intros s newer t v older R E. eapply log_never_invented; eauto. apply linearizable_log_reachable; exact R.
Qed.

Theorem producer_fifo : forall s t a va b vb l3 l4 l5 n1 n2 tb wb, ms_reachable s ->
  g_hist s = l5 ++ CallEnq t b vb :: l4 ++ CallEnq t a va :: l3 ->
  g_hist s = n1 ++ LinDeq tb b wb :: n2 ->
  exists ta n3 n4, n2 = n3 ++ LinDeq ta a va :: n4.
Proof.
  intros s t a va b vb l3 l4 l5 n1 n2 tb wb R E1 E2. pose proof (inv_reachable _ R) as I.
  eapply log_producer_fifo; eauto.
  - apply linearizable_log_reachable; exact R.
  - apply (inv_ids _ I).
  - apply enq_ids_nodup; exact I.
Qed.

(* every suffix of the history is the history of an earlier reachable state *)
Lemma hist_suffix_state : forall s, ms_reachable s -> forall l1 l2, g_hist s = l1 ++ l2 ->
  exists s0, ms_reachable s0 /\ g_hist s0 = l2.
Proof.
  induction 1 as [s Hi|s [[t c] o] s' R IH H]; intros l1 l2 E.
  - rewrite Hi in E. cbn in E. destruct l1; [|discriminate]. cbn in E. subst l2.
    exists s. split; [apply reach_init; exact Hi|rewrite Hi; reflexivity].
  - unfold ms_step in H. cbn in H.
    assert (R' : ms_reachable s'). { eapply reach_step with (l := ((t, c), o)); [exact R|]. unfold ms_step. cbn. exact H. }
    destruct (hist_step _ _ _ _ _ H) as [Eh|[e [Eh _]]].
    + rewrite Eh in E. eapply IH; eauto.
    + destruct l1 as [|e1 l1].
      * cbn in E. exists s'. auto.
      * rewrite Eh in E. cbn in E. injection E as _ E. eapply IH; eauto.
Qed.

(* "empty" only if the abstract queue was empty at an instant inside the call *)
Theorem empty_only_if_empty : forall s newer t older, ms_reachable s ->
  g_hist s = newer ++ RetDeq t None :: older ->
  exists l1 l2 s0, older = l1 ++ EmptyAt t :: l2 /\
    (forall e, In e l1 -> is_boundary t e = false) /\
    (exists b, tphase t l2 = PDeqCalled b) /\
    ms_reachable s0 /\ g_hist s0 = l2 /\ absq s0 = [].
Proof.
  intros s newer t older R E.
  destruct (log_empty _ _ _ _ (linearizable_log_reachable _ R) E) as [l1 [l2 [-> [NB [PB RE]]]]].
  destruct (hist_suffix_state _ R (newer ++ RetDeq t None :: l1 ++ [EmptyAt t]) l2) as [s0 [R0 H0]].
  { rewrite E. repeat (rewrite <- app_assoc; cbn). reflexivity. }
  exists l1, l2, s0. splits; auto.
  destruct (linearizable _ R0) as [A _]. rewrite H0, RE in A. injection A as A.
  unfold absq. rewrite <- A. reflexivity.
Qed.

(* drained: exactly the enqueued (linked) tasks have been dequeued, each once, in order;
   and with no Enqueue in flight every task whose Enqueue was called is among them *)
Theorem drained_exactly_once : forall s, ms_reachable s -> absq s = [] ->
  deqs (g_hist s) = enqs (g_hist s) /\ NoDup (map fst (deqs (g_hist s))) /\
  (forall t id v, In (CallEnq t id v) (g_hist s) ->
     (forall n, tphase t (g_hist s) <> PEnqCalled n v) -> In (id, v) (deqs (g_hist s))).
Proof.
  intros s R Q. pose proof (inv_reachable _ R) as I.
  assert (Qi : absq_items s = []). { unfold absq in Q. destruct (absq_items s); [reflexivity|discriminate]. }
  assert (D : deqs (g_hist s) = enqs (g_hist s)).
  { apply log_drained. rewrite (inv_replay _ I), Qi. reflexivity. }
  splits; auto.
  - apply (dequeued_at_most_once s R).
  - intros t id v Hin Hph. rewrite D. apply in_split in Hin. destruct Hin as [l4 [l3 E]].
    eapply linenq_in_enqs with (t := t). rewrite E. apply in_or_app. left.
    eapply log_enq_linked; eauto.
    intro t'. apply thread_phase_ok; exact I.
Qed.

(* ---- the abstract queue is a function of the concrete state ---- *)
Lemma walk_chain : forall s, Inv s -> forall fuel k, (List.length (g_chain s) - k <= fuel)%nat ->
  walk (heap s) fuel (nth_error (g_chain s) k) = skipn k (g_chain s).
Proof.
  intros s I. induction fuel as [|f IH]; intros k Hk.
  - cbn. rewrite skipn_all2 by lia. reflexivity.
  - cbn [walk]. destruct (nth_error (g_chain s) k) as [n|] eqn:E.
    + destruct (chain_heap _ _ _ I E) as [nd [A B]]. rewrite A, B, IH by lia.
      symmetry. apply skipn_nth. exact E.
    + apply nth_error_None in E. rewrite skipn_all2 by lia. reflexivity.
Qed.

Lemma chain_le_heap : forall s, Inv s -> (List.length (g_chain s) <= List.length (heap s))%nat.
Proof.
  intros s I. rewrite <- (seq_length (List.length (heap s)) 0).
  apply NoDup_incl_length; [apply (inv_chain _ I)|].
  intros n Hn. apply in_seq. pose proof (chain_in_heap _ _ I Hn). lia.
Qed.

Theorem absq_concrete : forall s, ms_reachable s -> absq s = queue_of_heap s.
Proof.
  intros s R. pose proof (inv_reachable _ R) as I. unfold queue_of_heap.
  destruct (inv_chain _ I) as [_ [_ [Chd _]]]. rewrite Chd.
  rewrite walk_chain by (auto; pose proof (chain_le_heap _ I); lia).
  destruct (head_now _ I) as [p [_ Cp]]. rewrite (skipn_nth _ _ _ _ Cp). cbn [List.tl].
  unfold absq, absq_items. rewrite map_map. reflexivity.
Qed.

(* ---- the length counter ---- *)
Theorem length_lag : forall s, ms_reachable s ->
  len s = wrap_i32 (Z.of_nat (List.length (absq s)) + total_lag s).
Proof.
  intros s R. rewrite (inv_len _ (inv_reachable _ R)). unfold absq. rewrite map_length. reflexivity.
Qed.

Definition count_pc (f : pc -> bool) (s : gstate) : nat :=
  List.length (filter (fun th => f (t_pc th)) (threads s)).

Lemma total_lag_counts : forall s,
  total_lag s = Z.of_nat (count_pc (fun p => match p with D7 => true | _ => false end) s)
              - Z.of_nat (count_pc (fun p => match p with E5 | E6 => true | _ => false end) s).
Proof.
  intro s. unfold total_lag, count_pc. induction (threads s) as [|th r IH]; [reflexivity|].
  cbn [fold_right filter]. rewrite IH. unfold lag. destruct (t_pc th); cbn [List.length]; lia.
Qed.

Theorem length_quiescent : forall s, ms_reachable s -> quiescent s ->
  Z.of_nat (List.length (absq s)) < 2147483648 ->
  q_length s = Z.of_nat (List.length (absq s)) /\ (q_isempty s = true <-> absq s = []).
Proof.
  intros s R Q B. pose proof (length_lag s R) as L.
  unfold total_lag in L. rewrite total_lag_idle in L by exact Q.
  rewrite Z.add_0_r, wrap_i32_small in L by lia.
  unfold q_length, q_isempty. rewrite L. split; [reflexivity|].
  rewrite Z.eqb_eq. destruct (absq s); cbn [List.length]; split; intro H; try reflexivity; try discriminate; lia.
Qed.

Lemma quiescent_b_sound : forall s, quiescent_b s = true -> quiescent s.
Proof.
  intros s H t. unfold quiescent_b in H. unfold get_thread. revert t.
  induction (threads s) as [|th r IH]; intro t.
  - destruct t; reflexivity.
  - cbn in H. apply andb_prop in H. destruct H as [H1 H2]. destruct t; cbn.
    + destruct (t_pc th); try discriminate. reflexivity.
    + apply IH. exact H2.
Qed.

(* ---- every local pointer is on the chain, not beyond the shared index it was read from ---- *)
Definition holds_tail (p : pc) : bool :=
  match p with E2 | E3 | E4 | E5 | E7 | D3 | D4 | D5 => true | _ => false end.
Definition holds_head (p : pc) : bool :=
  match p with D2 | D3 | D4 | D6 => true | _ => false end.

Theorem locals_on_chain : forall s t, ms_reachable s ->
  let th := get_thread (threads s) t in
  t_pc th <> Crashed /\
  (holds_tail (t_pc th) = true ->
     exists i p, l_tail th = Some p /\ nth_error (g_chain s) i = Some p /\ (i <= g_t s)%nat) /\
  (holds_head (t_pc th) = true ->
     exists j p, l_head th = Some p /\ nth_error (g_chain s) j = Some p /\ (j <= g_h s)%nat).
Proof.
  intros s t R th. pose proof (inv_threads _ (inv_reachable _ R) t) as T. fold th in T.
  unfold thread_inv, tail_at, head_at in T.
  destruct (t_pc th); cbn [holds_tail holds_head]; splits; try discriminate; try (intros; discriminate); try (destruct T; fail); intros _.
  - destruct T as [_ [i [p H]]]; eauto.
  - destruct T as [_ [i [[p H] _]]]; eauto.
  - destruct T as [_ [i [[p H] _]]]; eauto.
  - destruct T as [n [i [_ [[p H] _]]]]; eauto.
  - destruct T as [_ [i [[p H] _]]]; eauto.
  - destruct T as [_ [j [p H]]]; eauto.
  - destruct T as [_ [j [i [_ [[p H] _]]]]]; eauto.
  - destruct T as [_ [j [i [[p H] _]]]]; eauto.
  - destruct T as [_ [j [i [_ [[p H] _]]]]]; eauto.
  - destruct T as [_ [j [i [[p H] _]]]]; eauto.
  - destruct T as [_ [i [[p H] _]]]; eauto.
  - destruct T as [_ [j [[p H] _]]]; eauto.
Qed.

(* ---- executions computed by the step function are reachable (used by the Examples) ---- *)
Lemma ms_run_reachable : forall sched, ms_reachable (fst (run ms_fstep init_state sched)).
Proof. intro sched. exact (run_reachable _ _ _ ms_fstep ms_init init_state sched eq_refl). Qed.

(* ---- where the linearization events are logged, in terms of what the step observed ----
   LinEnq exactly at a successful CAS on a node's next field (the link CAS), LinDeq exactly at a
   successful CAS on head, EmptyAt only at a load of a next field that returned nil. *)
Theorem lin_points : forall s t c s' ao r, ms_reachable s -> tstep s t c = (s', (ao, r)) ->
  match ao with
  | OCas (LNext _) _ _ true => exists n v, g_hist s' = LinEnq t n v :: g_hist s
  | OCas LHead _ _ true => exists n v, g_hist s' = LinDeq t n v :: g_hist s
  | OLd (LNext _) None => g_hist s' = g_hist s \/ g_hist s' = EmptyAt t :: g_hist s
  | _ => g_hist s' = g_hist s \/ exists e, g_hist s' = e :: g_hist s /\ lin_free e
  end.
Proof.
  intros s t c s' ao r R H. pose proof (inv_threads _ (inv_reachable _ R) t) as T.
  unfold thread_inv in T. unfold tstep, crash, cas_tail in H.
  destruct (t_pc (get_thread (threads s) t)) eqn:PC, c;
    repeat (match type of H with
            | context [ptr_eqb ?a ?b] => destruct (ptr_eqb a b) eqn:?
            | context [is_nil ?a] => destruct (is_nil a) eqn:?
            | context [match ?x with _ => _ end] => destruct x eqn:?
            end; cbn [fst snd andb] in H);
    injection H as <- <- <-; cbn [g_hist upd_thread log_ev add_len];
    try (left; reflexivity); try (right; eexists; split; [reflexivity|exact I]);
    eauto.
  all: try (destruct T as [[? [LN _]] _]; congruence).
  all: try (destruct T as [_ [? [_ [[? [LN _]] _]]]]; congruence).
  all: destruct (n_next _) eqn:NN; cbn in *; auto; try discriminate.
Qed.
