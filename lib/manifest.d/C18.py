CHECK = dict(
    engine="loop", design_ref="4 / the connection and event-loop model (C18)",
    text="""Coq theorems fault_ok and fuel_ok over every input stream, and the fact that C01/C02/C04/C07 theorems quantify over fault results too; Polling's sentinel errors, the accept errno classes (retry vs return) and every errno test of the loop's I/O code regenerated from the source on every run (genloop; LoopPioSpec proves the model's events/drains stop exactly on the declared sentinels); plus replay of real engine traces with errno injection (read/write/close/epoll_ctl/accept incl. the main reactor's accept4/epoll_wait; singly and in pairs; coherent: a fatal injected errno also shuts the real socket down).""",
    note="Proof is about the hand-written model coq/Model/Loop.v (kernel, handler and other goroutines are universally quantified inputs); "
         "the tie to /repo is the per-run trace correspondence through the vunix shim. Kernel stream semantics assumed (monitors in the model state the contract). Runs cover the default, gc_opt and poll_opt builds, server and client side, 1-4 loops (loop 0 modelled, the others judged by the direct oracles).",
    technique="Coq invariant proofs over a big-step interpreter of the event loop + executable trace checkers + differential replay of real engine runs",
)
ENGINE = dict(name="loop", path="coq/Model/Loop.v", serves_properties=["C18"],
              kind_free_text="Gallina model of one event loop (connection_unix/eventloop_unix/processIO/accept/task queues) + Spec/LoopSpec.v checkers + drv-loop + vunix shim")
