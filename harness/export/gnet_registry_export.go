//go:build verif

//verif:target export_verif_registry.go

package gnet

import "github.com/panjf2000/gnet/v2/internal/gfd"

// VerifRegistry wraps the event-loop connection registry (connMatrix; the type
// is the map-based one by default and the compacting matrix under gc_opt) for
// the verification harness.  Connections are fake (&conn{fd: fd}); the wrapper
// only remembers which identity the harness gave to which *conn.
type VerifRegistry struct {
	cm   connMatrix
	ids  map[*conn]int
	byID map[int]*conn
}

const (
	VerifRegistryRowMax = gfd.ConnMatrixRowMax
	VerifRegistryColMax = gfd.ConnMatrixColumnMax
)

func NewVerifRegistry() *VerifRegistry {
	r := &VerifRegistry{ids: map[*conn]int{}, byID: map[int]*conn{}}
	r.cm.init()
	return r
}

// Add registers a new fake connection with identity id and descriptor fd.
func (r *VerifRegistry) Add(id, fd int) {
	c := &conn{fd: fd}
	r.ids[c] = id
	r.byID[id] = c
	r.cm.addConn(c, 0)
}

// Del removes the connection object with identity id (whatever its state).
func (r *VerifRegistry) Del(id int) { r.cm.delConn(r.byID[id]) }

// Known reports whether a connection object with that identity was created.
func (r *VerifRegistry) Known(id int) bool { return r.byID[id] != nil }

// Get returns the identity registered under fd, or -1 for nil.
func (r *VerifRegistry) Get(fd int) int {
	c := r.cm.getConn(fd)
	if c == nil {
		return -1
	}
	return r.ids[c]
}

// Iterate runs connMatrix.iterate; visit gets the identity and fd of the visited
// connection and says whether to delConn it and whether to continue.
func (r *VerifRegistry) Iterate(visit func(id, fd int) (del, cont bool)) {
	r.cm.iterate(func(c *conn) bool {
		del, cont := visit(r.ids[c], c.fd)
		if del {
			r.cm.delConn(c)
		}
		return cont
	})
}

func (r *VerifRegistry) Count() int { return int(r.cm.loadCount()) }

// Pos returns the (row, column) stored in the connection's own GFD and the fd stored there.
func (r *VerifRegistry) Pos(id int) (row, col, fd int) {
	c := r.byID[id]
	return c.gfd.ConnMatrixRow(), c.gfd.ConnMatrixColumn(), c.gfd.Fd()
}
