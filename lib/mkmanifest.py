#!/usr/bin/env python3
"""Regenerates MANIFEST.json from lib/manifest_data.py (kept valid at all times)."""
import json, os, sys
sys.path.insert(0, os.path.dirname(os.path.abspath(__file__)))
from manifest_data import CHECKS, ENGINES, NOT_APPLICABLE, NOTES
root = os.path.dirname(os.path.dirname(os.path.abspath(__file__)))
checks = []
for pid in sorted(CHECKS):
    c = CHECKS[pid]
    checks.append(dict(
        property_id=pid,
        quick_cmd="bin/check %s --tier quick" % pid,
        thorough_cmd="bin/check %s --tier thorough" % pid,
        evidence_file="evidence/%s.json" % pid,
        replay_cmd_template="bin/check %s --replay {path}" % pid,
        engine=c["engine"],
        level_claimed=dict(category="proof", text=c["text"], design_ref=c["design_ref"]),
        level_note=c["note"],
        technique=c.get("technique", "Coq theorems on a hand-written Gallina model + per-run trace correspondence of the extracted model with the implementation"),
    ))
m = dict(
    version=1,
    setup_cmd="bin/setup",
    hooks=dict(
        guard="verif",
        enable="go build -tags verif -overlay <generated overlay.json> (add-only //go:build verif files from harness/export overlaid into /repo's packages at build time; nothing committed in /repo)",
        baseline_off_cmd="cd /repo && GOFLAGS=-mod=mod GOPROXY=off GOSUMDB=off go test -vet=off -count=1 -timeout 25m ./...",
        source_commits=[],
        add_only=True,
    ),
    engines=ENGINES,
    checks=checks,
    notes=NOTES,
    not_applicable=[dict(property_id=k, reason=v) for k, v in sorted(NOT_APPLICABLE.items())],
)
json.dump(m, open(os.path.join(root, "MANIFEST.json"), "w"), indent=1)
print("MANIFEST.json written:", len(checks), "checks,", len(NOT_APPLICABLE), "not_applicable")
