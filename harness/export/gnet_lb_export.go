//go:build verif

//verif:target export_verif_lb.go

package gnet

import (
	"net"
	"reflect"
	"sync"
	"unsafe"
)

// VerifLB wraps one of gnet's load balancers over fake event loops whose
// connection counts can be scripted (C15).
type VerifLB struct {
	lb  loadBalancer
	els []*eventloop
}

// VerifNewLB: policy 0 = RoundRobin, 1 = LeastConnections, 2 = SourceAddrHash (the switch of engine_unix.go run()).
func VerifNewLB(policy LoadBalancing) *VerifLB {
	v := &VerifLB{}
	switch policy {
	case RoundRobin:
		v.lb = new(roundRobinLoadBalancer)
	case LeastConnections:
		v.lb = new(leastConnectionsLoadBalancer)
	case SourceAddrHash:
		v.lb = new(sourceAddrHashLoadBalancer)
	}
	return v
}

// Register adds a fresh fake event loop and returns the idx the balancer assigned to it.
func (v *VerifLB) Register() int {
	el := new(eventloop)
	el.idx = -12345
	el.connections.init()
	v.lb.register(el)
	v.els = append(v.els, el)
	return el.idx
}

// SetCount makes loop i report n connections.
func (v *VerifLB) SetCount(i int, n int32) {
	el := v.els[i]
	el.connections.incCount(0, n-el.countConn())
}

func (v *VerifLB) Count(i int) int32 { return v.els[i].countConn() }

func (v *VerifLB) pos(el *eventloop) int {
	for i, e := range v.els {
		if e == el {
			return i
		}
	}
	return -1
}

// Next returns (position of the returned loop among the registered ones or -1, its idx field).
func (v *VerifLB) Next(addr net.Addr) (pos, idx int) {
	el := v.lb.next(addr)
	if el == nil {
		return -1, -1
	}
	return v.pos(el), el.idx
}

// Index returns -1 for nil.
func (v *VerifLB) Index(i int) int {
	el := v.lb.index(i)
	if el == nil {
		return -1
	}
	return v.pos(el)
}

func (v *VerifLB) Len() int { return v.lb.len() }

// Iterate visits the loops; the callback returns false on its k-th call (k <= 0: never).
func (v *VerifLB) Iterate(k int) (visited []int, agree bool) {
	agree = true
	calls := 0
	v.lb.iterate(func(i int, el *eventloop) bool {
		calls++
		visited = append(visited, v.pos(el))
		if i != el.idx {
			agree = false
		}
		return !(k > 0 && calls >= k)
	})
	return
}

// SetRRCounter sets the round-robin counter (no-op for the other policies).
// The counter is reached through reflection so that the harness still builds (and can still
// position the counter) when its integer type changes.
func (v *VerifLB) rrCounterField() (reflect.Value, bool) {
	rr, ok := v.lb.(*roundRobinLoadBalancer)
	if !ok {
		return reflect.Value{}, false
	}
	f := reflect.ValueOf(rr).Elem().FieldByName("nextIndex")
	if !f.IsValid() || !f.CanAddr() {
		return reflect.Value{}, false
	}
	return reflect.NewAt(f.Type(), unsafe.Pointer(f.UnsafeAddr())).Elem(), true
}

func (v *VerifLB) SetRRCounter(c uint64) {
	if f, ok := v.rrCounterField(); ok {
		switch f.Kind() {
		case reflect.Uint, reflect.Uint8, reflect.Uint16, reflect.Uint32, reflect.Uint64, reflect.Uintptr:
			f.SetUint(c) // a narrower field keeps the low bits
		case reflect.Int, reflect.Int8, reflect.Int16, reflect.Int32, reflect.Int64:
			f.SetInt(int64(c))
		}
	}
}

func (v *VerifLB) RRCounter() (uint64, bool) {
	if f, ok := v.rrCounterField(); ok {
		switch f.Kind() {
		case reflect.Uint, reflect.Uint8, reflect.Uint16, reflect.Uint32, reflect.Uint64, reflect.Uintptr:
			return f.Uint(), true
		case reflect.Int, reflect.Int8, reflect.Int16, reflect.Int32, reflect.Int64:
			return uint64(f.Int()), true
		}
	}
	return 0, false
}

// VerifHash is sourceAddrHashLoadBalancer.hash.
func VerifHash(s string) int { return new(sourceAddrHashLoadBalancer).hash(s) }

// ---- live engines: record what `next` returned for every accepted connection ----

type verifRecLB struct {
	loadBalancer
	mu  sync.Mutex
	rec func(remote string, idx int, counts []int32)
}

func (r *verifRecLB) next(a net.Addr) *eventloop {
	// snapshot of the counts the policy is about to look at (racy by nature, only used as a hint)
	var counts []int32
	r.loadBalancer.iterate(func(_ int, el *eventloop) bool {
		counts = append(counts, el.countConn())
		return true
	})
	el := r.loadBalancer.next(a)
	s := "<nil>"
	if a != nil {
		s = a.String()
	}
	r.mu.Lock()
	r.rec(s, el.idx, counts)
	r.mu.Unlock()
	return el
}

// VerifRecordLB must be called from OnBoot (before the event loops are
// registered and started): every later eventLoops.next is reported to rec.
func VerifRecordLB(e Engine, rec func(remote string, idx int, counts []int32)) {
	e.eng.eventLoops = &verifRecLB{loadBalancer: e.eng.eventLoops, rec: rec}
}

// VerifLoopIndex is the idx of the event loop a connection is attached to.
func VerifLoopIndex(c Conn) int {
	if cc, ok := c.(*conn); ok && cc.loop != nil {
		return cc.loop.idx
	}
	return -1
}

// VerifEventLoopIndex is the idx behind the public EventLoop handle.
func VerifEventLoopIndex(el EventLoop) int {
	if e, ok := el.(*eventloop); ok {
		return e.idx
	}
	return -1
}

func VerifNumLoops(e Engine) int { return e.eng.eventLoops.len() }
