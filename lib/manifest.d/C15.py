CHECK = dict(
    engine="lb", design_ref="4 / C15",
    text="Full proof on a Gallina transcription of load_balancer.go: round-robin is cyclic and exactly balanced after k*N "
         "accepts from any counter value (no uint64 wrap in between), least-connections returns the first loop of minimal "
         "count for every count vector, source-addr-hash is a pure function of the address bytes with a valid index for "
         "every byte string and every N >= 1 (crc32 bitwise, 64-bit int), every policy returns a registered loop; "
         "register/index/len. Differential traces over fake loops for every N = 1..256 and a live-server oracle for "
         "'callbacks run on the loop next returned'.",
    note="crc32 modelled (checked against hash/crc32 each run); 64-bit int assumed; the callback-confinement clause is "
         "proved in the event-loop model (C01/C04/C05), here only checked on live servers.",
    technique="Coq proof (div/mod counting argument, scan invariant, bit-range lemma for crc32) + differential traces + live-server oracle",
)
ENGINE = dict(name="lb", path="coq/Model/LB.v", serves_properties=["C15"],
              kind_free_text="Gallina model of load_balancer.go (rr/lc/hash, crc32 bitwise) + drv-lb (fake-loop scripts and live gnet servers)")
