//go:build verif && linux && poll_opt

//verif:target pkg/netpoll/export_verif_wakeup_efd_opt.go

package netpoll

// VerifEfd returns the poller's eventfd (poll_opt variant: the attachment epa).
func VerifEfd(p *Poller) int { return p.epa.FD }
