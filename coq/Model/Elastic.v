(* Model of /repo/pkg/buffer/elastic (C10):
     elastic_ring_buffer.go       RingBuffer  = a lazily acquired, pooled ring.Buffer
     elastic_ring_list_buffer.go  Buffer      = RingBuffer + linkedlist.Buffer
   transcribed method by method.  The inner buffers are the models of C09
   (Model/Ring.v) and C11 (Model/LList.v), used as they are.

   Pool.  rbPool.Get() hands back an empty (Reset) ring.Buffer of some capacity;
   which capacity is a policy of the pool (calibration, what was returned to it
   before) that the property does not constrain, so it is an INPUT: every
   operation that can reach instance() carries the capacity [c] the pool would
   hand back (ignored when the ring is already there).  rbPool.Put is the
   transition to [None].

   Errors are never strings: [xerr].  Reader / writer scripts are lists of
   (count, error) as in Ring.v / LList.v (same Go reader and writer).
   No proofs here. *)
From GV Require Import Lib.Trace Spec.Fifo.
From GV Require Model.Ring Model.LList.
Open Scope Z_scope.

Inductive xerr := XNil | XEmpty | XEof | XShortBuf | XShortWrite | XErr.

Definition of_rerr (e : Ring.err) : xerr :=
  match e with
  | Ring.ENil => XNil | Ring.EEmpty => XEmpty | Ring.EShort => XShortWrite
  | Ring.EEof => XEof | Ring.EErr => XErr
  end.

Definition of_lerr (e : LList.err) : xerr :=
  match e with
  | LList.ENil => XNil | LList.EEOF => XEof | LList.EShortBuf => XShortBuf
  | LList.EShortWrite => XShortWrite | LList.EOther => XErr
  end.

(* a script entry's error as the ring model / the list model names it *)
Definition to_rerr (e : xerr) : Ring.err :=
  match e with XNil => Ring.ENil | XEof => Ring.EEof | _ => Ring.EErr end.
Definition to_lerr (e : xerr) : LList.err :=
  match e with XNil => LList.ENil | XEof => LList.EEOF | _ => LList.EOther end.

Definition script := list (Z * xerr).
Definition rscript_of (sc : script) : list (Z * Ring.err) := map (fun ke => (fst ke, to_rerr (snd ke))) sc.
Definition lscript_of (sc : script) : list (Z * LList.err) := map (fun ke => (fst ke, to_lerr (snd ke))) sc.

(* a byte stored by the list buffer, as a value (elastic never uses Append:
   every stored byte is a [Lit]) *)
Definition unlit (x : LList.sbyte) : Z := LList.deref [] x.
Definition lits (p : list Z) : LList.seg := map LList.Lit p.

(* ====================================================================== *)
(* elastic.RingBuffer                                                     *)

Definition ering := option Ring.ring.

(* what rbPool.Get() returns when the pool hands back capacity c: Put Reset it *)
Definition pool_ring (c : Z) : Ring.ring := Ring.Reset (Ring.mkRing (Ring.zeros c) c 0 0 true).

(* instance() *)
Definition instance (e : ering) (c : Z) : Ring.ring :=
  match e with Some rb => rb | None => pool_ring c end.

(* done(): b.rb != nil is established by every caller *)
Definition done (rb : Ring.ring) : ering := if Ring.IsEmpty rb then None else Some rb.

Definition RPeek (e : ering) (n : Z) : outcome (list Z * list Z) :=
  match e with None => Ret ([], []) | Some rb => Ring.Peek rb n end.

Definition RDiscard (e : ering) (n : Z) : outcome (ering * (Z * xerr)) :=
  match e with
  | None => Ret (None, (0, XEmpty))
  | Some rb => obind (Ring.Discard rb n) (fun '(rb', (k, er)) => Ret (done rb', (k, of_rerr er)))
  end.

Definition RRead (e : ering) (plen : Z) : outcome (ering * (list Z * Z * xerr)) :=
  match e with
  | None => Ret (None, ([], 0, XEmpty))
  | Some rb => obind (Ring.Read rb plen) (fun '(rb', (d, k, er)) => Ret (done rb', (d, k, of_rerr er)))
  end.

Definition RReadByte (e : ering) : outcome (ering * (Z * xerr)) :=
  match e with
  | None => Ret (None, (0, XEmpty))
  | Some rb => obind (Ring.ReadByte rb) (fun '(rb', (b, er)) => Ret (done rb', (b, of_rerr er)))
  end.

Definition RWrite (e : ering) (c : Z) (p : list Z) : outcome (ering * (Z * xerr)) :=
  if zlen p =? 0 then Ret (e, (0, XNil)) else
  obind (Ring.Write (instance e c) p) (fun '(rb', (k, er)) => Ret (Some rb', (k, of_rerr er))).

Definition RWriteString (e : ering) (c : Z) (p : list Z) : outcome (ering * (Z * xerr)) :=
  if zlen p =? 0 then Ret (e, (0, XNil)) else
  obind (Ring.WriteString (instance e c) p) (fun '(rb', (k, er)) => Ret (Some rb', (k, of_rerr er))).

Definition RWriteByte (e : ering) (c : Z) (b : Z) : outcome (ering * xerr) :=
  obind (Ring.WriteByte (instance e c) b) (fun '(rb', er) => Ret (Some rb', of_rerr er)).

Definition RBuffered (e : ering) : Z := match e with None => 0 | Some rb => Ring.Buffered rb end.
Definition RLen (e : ering) : Z := match e with None => 0 | Some rb => Ring.Len rb end.
Definition RCap (e : ering) : Z := match e with None => 0 | Some rb => Ring.Cap rb end.
Definition RAvailable (e : ering) : Z := match e with None => 0 | Some rb => Ring.Available rb end.
Definition RIsFull (e : ering) : bool := match e with None => false | Some rb => Ring.IsFull rb end.
Definition RIsEmpty (e : ering) : bool := match e with None => true | Some rb => Ring.IsEmpty rb end.

Definition RBytes (e : ering) : outcome (list Z) :=
  match e with None => Ret [] | Some rb => Ring.Bytes rb end.

Definition RReadFrom (e : ering) (c : Z) (src : list Z) (sc : script) : outcome (ering * Ring.rf_out) :=
  obind (Ring.ReadFrom (instance e c) src (rscript_of sc)) (fun '(rb', o) => Ret (Some rb', o)).

Definition RWriteTo (e : ering) (sc : script) : outcome (ering * Ring.wt_out) :=
  match e with
  | None => Ret (None, Ring.mkWtOut 0 Ring.EEmpty [])
  | Some rb => obind (Ring.WriteTo rb (rscript_of sc)) (fun '(rb', o) => Ret (done rb', o))
  end.

Definition RReset (e : ering) : ering :=
  match e with None => None | Some rb => Some (Ring.Reset rb) end.

(* Done(): the ring goes back to the pool whatever it holds *)
Definition RDone (e : ering) : ering := None.

(* how many Write calls ring.Buffer.WriteTo makes on the writer: one per
   non-empty segment (the two segments are those of Peek(-1)), the second
   only after the first was accepted completely and without error *)
Definition ring_wt_calls (e : ering) (sc : script) : nat :=
  match e with
  | None => O
  | Some rb =>
      if Ring.IsEmpty rb then O else
      match Ring.Peek rb (-1) with
      | Ret (h, t) =>
          let '(acc, er, _) := Ring.writer_write (rscript_of sc) h in
          if Ring.is_nil er && (zlen acc =? zlen h) && negb (zlen t =? 0) then 2%nat else 1%nat
      | Panic => O
      end
  end.

(* ---- operations of the elastic RingBuffer as data ---- *)
Inductive rop :=
| RoWrite (c : Z) (p : list Z) | RoWriteString (c : Z) (p : list Z) | RoWriteByte (c : Z) (b : Z)
| RoRead (n : Z) | RoReadByte | RoPeek (n : Z) | RoDiscard (n : Z) | RoBytes
| RoReadFrom (c : Z) (src : list Z) (sc : script) | RoWriteTo (sc : script)
| RoReset | RoDone
| RoBuffered | RoAvailable | RoCap | RoLen | RoIsEmpty | RoIsFull.

Inductive xout :=
| XWrite (n : Z) (e : xerr)
| XWriteByte (e : xerr)
| XRead (d : list Z) (n : Z) (e : xerr)
| XReadByte (b : Z) (e : xerr)
| XPeek2 (head tail : list Z)                      (* RingBuffer.Peek *)
| XPeek (e : xerr) (segs : list (list Z))          (* Buffer.Peek *)
| XDiscard (n : Z) (e : xerr)
| XBytes (d : list Z)
| XReadFrom (n : Z) (e : xerr) (remaining : Z)     (* remaining = bytes the reader still holds *)
| XWriteTo (n : Z) (e : xerr) (recv : list Z)      (* recv = bytes the writer accepted *)
| XUnit
| XInt (z : Z)
| XBool (b : bool).

Definition omap {A B} (f : A -> B) (o : outcome A) : outcome B :=
  match o with Ret a => Ret (f a) | Panic => Panic end.

Definition rstep (e : ering) (o : rop) : outcome (ering * xout) :=
  match o with
  | RoWrite c p => omap (fun '(e', (n, er)) => (e', XWrite n er)) (RWrite e c p)
  | RoWriteString c p => omap (fun '(e', (n, er)) => (e', XWrite n er)) (RWriteString e c p)
  | RoWriteByte c b => omap (fun '(e', er) => (e', XWriteByte er)) (RWriteByte e c b)
  | RoRead n => omap (fun '(e', (d, k, er)) => (e', XRead d k er)) (RRead e n)
  | RoReadByte => omap (fun '(e', (b, er)) => (e', XReadByte b er)) (RReadByte e)
  | RoPeek n => omap (fun '(h, t) => (e, XPeek2 h t)) (RPeek e n)
  | RoDiscard n => omap (fun '(e', (k, er)) => (e', XDiscard k er)) (RDiscard e n)
  | RoBytes => omap (fun d => (e, XBytes d)) (RBytes e)
  | RoReadFrom c src sc =>
      omap (fun '(e', o) => (e', XReadFrom (Ring.rf_n o) (of_rerr (Ring.rf_err o)) (zlen (Ring.rf_src o))))
           (RReadFrom e c src sc)
  | RoWriteTo sc =>
      omap (fun '(e', o) => (e', XWriteTo (Ring.wt_n o) (of_rerr (Ring.wt_err o)) (Ring.wt_recv o)))
           (RWriteTo e sc)
  | RoReset => Ret (RReset e, XUnit)
  | RoDone => Ret (RDone e, XUnit)
  | RoBuffered => Ret (e, XInt (RBuffered e))
  | RoAvailable => Ret (e, XInt (RAvailable e))
  | RoCap => Ret (e, XInt (RCap e))
  | RoLen => Ret (e, XInt (RLen e))
  | RoIsEmpty => Ret (e, XBool (RIsEmpty e))
  | RoIsFull => Ret (e, XBool (RIsFull e))
  end.

Fixpoint run_rops (e : ering) (ops : list rop) : outcome (ering * list xout) :=
  match ops with
  | [] => Ret (e, [])
  | o :: rest =>
      obind (rstep e o) (fun '(e1, x) =>
      obind (run_rops e1 rest) (fun '(e2, xs) => Ret (e2, x :: xs)))
  end.

(* ====================================================================== *)
(* elastic.Buffer                                                         *)

Record buffer := mkB { eb_max : Z; eb_ring : ering; eb_list : LList.buffer }.

(* the zero value Buffer{} (gnet embeds it and calls Reset(cap)), and New *)
Definition zero_buffer : buffer := mkB 0 None LList.empty_buffer.
Definition New (maxStaticBytes : Z) : option buffer :=
  if maxStaticBytes <=? 0 then None else Some (mkB maxStaticBytes None LList.empty_buffer).

Definition BBuffered (b : buffer) : Z := RBuffered (eb_ring b) + LList.Buffered (eb_list b).
Definition BIsEmpty (b : buffer) : bool := RIsEmpty (eb_ring b) && LList.IsEmpty (eb_list b).

(* the condition that sends write-type operations to the list *)
Definition to_list (b : buffer) : bool :=
  negb (LList.IsEmpty (eb_list b)) || (RBuffered (eb_ring b) >=? eb_max b).

(* ---- Read ---- *)
Definition BRead (b : buffer) (plen : Z) : outcome (buffer * (list Z * Z * xerr)) :=
  obind (RRead (eb_ring b) plen) (fun '(r', (d, n, e)) =>
  if n =? plen then Ret (mkB (eb_max b) r' (eb_list b), (d, n, e)) else
  (* p[n:] *)
  if (0 <=? n) && (n <=? plen) then
    let '((m, le, bs), l') := LList.Read (eb_list b) (plen - n) in
    Ret (mkB (eb_max b) r' l', ((d ++ map unlit bs)%list, n + m, of_lerr le))
  else Panic).

(* ---- Peek ---- *)
Definition peek_rest (b : buffer) (n : Z) : outcome (xerr * list (list Z)) :=
  obind (RPeek (eb_ring b) n) (fun '(h, t) =>
  if RBuffered (eb_ring b) =? n then Ret (XNil, [h; t]) else
  obind (LList.PeekWithBytes (eb_list b) n [lits h; lits t]) (fun '(e, bss) =>
  Ret (of_lerr e, map (map unlit) bss))).

Definition BPeek (b : buffer) (n : Z) : outcome (xerr * list (list Z)) :=
  if (n <=? 0) || (n =? LList.MaxInt32) then peek_rest b LList.MaxInt32
  else if n >? BBuffered b then Ret (XShortBuf, [])
  else peek_rest b n.

(* ---- Discard ---- *)
Definition BDiscard (b : buffer) (n : Z) : outcome (buffer * (Z * xerr)) :=
  obind (RDiscard (eb_ring b) n) (fun '(r', (discarded, e)) =>
  if n <=? discarded then Ret (mkB (eb_max b) r' (eb_list b), (discarded, e)) else
  let '(m, l') := LList.Discard (eb_list b) (n - discarded) in
  Ret (mkB (eb_max b) r' l', (discarded + m, XNil))).

(* ---- Write ---- *)
Definition BWrite (b : buffer) (c : Z) (p : list Z) : outcome (buffer * (Z * xerr)) :=
  let r := eb_ring b in let l := eb_list b in
  if to_list b then Ret (mkB (eb_max b) r (LList.PushBack l p), (zlen p, XNil)) else
  if (RLen r >=? eb_max b) && (zlen p >? RAvailable r) then
    let writable := RAvailable r in
    obind (Ring.slice p 0 writable) (fun p1 =>
    obind (RWrite r c p1) (fun '(r', _) =>
    obind (Ring.slice p writable (zlen p)) (fun p2 =>
    Ret (mkB (eb_max b) r' (LList.PushBack l p2), (zlen p, XNil)))))
  else
    obind (RWrite r c p) (fun '(r', (n, e)) => Ret (mkB (eb_max b) r' l, (n, e))).

(* ---- Writev ---- *)
Definition push_all (l : LList.buffer) (bs : list (list Z)) : LList.buffer :=
  fold_left LList.PushBack bs l.

Definition total_len (bs : list (list Z)) : Z := fold_left (fun a x => a + zlen x) bs 0.

(* the first loop; on `break` the second loop pushes the remaining slices *)
Fixpoint writev_loop (bs : list (list Z)) (r : ering) (l : LList.buffer) (c writable cum : Z)
  : outcome (ering * LList.buffer * Z) :=
  match bs with
  | [] => Ret (r, l, cum)
  | x :: rest =>
      let cum := cum + zlen x in
      if zlen x >? writable then
        obind (Ring.slice x 0 writable) (fun x1 =>
        obind (RWrite r c x1) (fun '(r', _) =>
        obind (Ring.slice x writable (zlen x)) (fun x2 =>
        Ret (r', push_all (LList.PushBack l x2) rest, cum + total_len rest))))
      else
        obind (RWrite r c x) (fun '(r', (n, _)) => writev_loop rest r' l c (writable - n) cum)
  end.

Definition BWritev (b : buffer) (c : Z) (bs : list (list Z)) : outcome (buffer * (Z * xerr)) :=
  let r := eb_ring b in let l := eb_list b in
  if to_list b then Ret (mkB (eb_max b) r (push_all l bs), (total_len bs, XNil)) else
  let writable := if RLen r <? eb_max b then eb_max b - RBuffered r else RAvailable r in
  obind (writev_loop bs r l c writable 0) (fun '(r', l', cum) =>
  Ret (mkB (eb_max b) r' l', (cum, XNil))).

(* ---- ReadFrom ---- *)
Definition BReadFrom (b : buffer) (c : Z) (src : list Z) (sc : script) : outcome (buffer * (Z * xerr * Z)) :=
  if to_list b then
    match LList.ReadFrom (eb_list b) src (lscript_of sc) with
    | (Ret (n, e), l') => Ret (mkB (eb_max b) (eb_ring b) l', (n, of_lerr e, zlen src - n))
    | (Panic, _) => Panic
    end
  else
    obind (RReadFrom (eb_ring b) c src sc) (fun '(r', o) =>
    Ret (mkB (eb_max b) r' (eb_list b), (Ring.rf_n o, of_rerr (Ring.rf_err o), zlen (Ring.rf_src o)))).

(* ---- WriteTo ---- *)
Definition BWriteTo (b : buffer) (sc : script) : outcome (buffer * (Z * xerr * list Z)) :=
  obind (if negb (RIsEmpty (eb_ring b)) then RWriteTo (eb_ring b) sc
         else Ret (eb_ring b, Ring.mkWtOut 0 Ring.ENil [])) (fun '(r', o) =>   (* n = 0, err = nil *)
  if negb (Ring.is_nil (Ring.wt_err o)) then
    Ret (mkB (eb_max b) r' (eb_list b), (Ring.wt_n o, of_rerr (Ring.wt_err o), Ring.wt_recv o))
  else
    match LList.WriteTo (eb_list b) (lscript_of (skipn (ring_wt_calls (eb_ring b) sc) sc)) with
    | (Ret (m, e, bs), l') =>
        Ret (mkB (eb_max b) r' l', (Ring.wt_n o + m, of_lerr e, (Ring.wt_recv o ++ map unlit bs)%list))
    | (Panic, _) => Panic
    end).

(* ---- Reset / Release ---- *)
Definition BReset (b : buffer) (maxStaticBytes : Z) : buffer :=
  mkB (if maxStaticBytes >? 0 then maxStaticBytes else eb_max b) (RReset (eb_ring b)) (LList.Reset (eb_list b)).

Definition BRelease (b : buffer) : buffer :=
  mkB (eb_max b) (RDone (eb_ring b)) (LList.Reset (eb_list b)).

(* ---- operations of the elastic Buffer as data ---- *)
Inductive bop :=
| BoWrite (c : Z) (p : list Z) | BoWritev (c : Z) (bs : list (list Z))
| BoRead (n : Z) | BoPeek (n : Z) | BoDiscard (n : Z)
| BoReadFrom (c : Z) (src : list Z) (sc : script) | BoWriteTo (sc : script)
| BoReset (maxStaticBytes : Z) | BoRelease
| BoBuffered | BoIsEmpty.

Definition bstep (b : buffer) (o : bop) : outcome (buffer * xout) :=
  match o with
  | BoWrite c p => omap (fun '(b', (n, e)) => (b', XWrite n e)) (BWrite b c p)
  | BoWritev c bs => omap (fun '(b', (n, e)) => (b', XWrite n e)) (BWritev b c bs)
  | BoRead n => omap (fun '(b', (d, k, e)) => (b', XRead d k e)) (BRead b n)
  | BoPeek n => omap (fun '(e, segs) => (b, XPeek e segs)) (BPeek b n)
  | BoDiscard n => omap (fun '(b', (k, e)) => (b', XDiscard k e)) (BDiscard b n)
  | BoReadFrom c src sc => omap (fun '(b', (n, e, rem)) => (b', XReadFrom n e rem)) (BReadFrom b c src sc)
  | BoWriteTo sc => omap (fun '(b', (n, e, recv)) => (b', XWriteTo n e recv)) (BWriteTo b sc)
  | BoReset m => Ret (BReset b m, XUnit)
  | BoRelease => Ret (BRelease b, XUnit)
  | BoBuffered => Ret (b, XInt (BBuffered b))
  | BoIsEmpty => Ret (b, XBool (BIsEmpty b))
  end.

Fixpoint run_bops (b : buffer) (ops : list bop) : outcome (buffer * list xout) :=
  match ops with
  | [] => Ret (b, [])
  | o :: rest =>
      obind (bstep b o) (fun '(b1, x) =>
      obind (run_bops b1 rest) (fun '(b2, xs) => Ret (b2, x :: xs)))
  end.

(* ====================================================================== *)
(* trace runner: family "elastic"
   first op line of a case:  new ring | new buffer <max>   (max <= 0: New fails, the zero value is used)
   op lines (c = capacity the pool hands back if this op acquires the ring)     obs lines
     write <c> x<p> | writestring <c> x<p>      write <n> <err>
     writebyte <c> <b>                          writebyte <err>                      (ring)
     writev <c> x<b1> x<b2> ...                 writev <n> <err>                     (buffer)
     read <n>                                   read <n> <err> x<data>
     readbyte                                   readbyte <b> <err>                   (ring)
     peek <n>                                   peek <len h> <len t> x<h> x<t>       (ring)
                                                peek <err> <#segs> x.. x..           (buffer)
     discard <n>                                discard <n> <err>
     bytes                                      bytes x<data>                        (ring)
     readfrom <c> x<src> (<k> <e>)*             readfrom <n> <err> <remaining>
     writeto (<k> <e>)*                         writeto <n> <err> x<received>
     reset [<max>] | done | release             <name> ok
   after every op
     ring:    st <nil?> <Buffered> <Available> <Cap> <Len> <IsEmpty> <IsFull> x<Bytes()>|-
     buffer:  st <Buffered> <IsEmpty> <max> <ring nil?> <ring Buffered> <ring Cap> <list Buffered> <list Len> x<Peek(-1) joined>|-
   ("-" when more than 768 bytes are buffered).  A panic is "<name> panic" and ends the case. *)
Open Scope string_scope.

Definition xerr_arg (e : xerr) : arg :=
  ASym (match e with XNil => "nil" | XEmpty => "empty" | XEof => "eof" | XShortBuf => "shortbuf"
                | XShortWrite => "shortwrite" | XErr => "err" end).

Definition xerr_of_sym (s : string) : xerr :=
  if sym_eqb s "nil" then XNil else if sym_eqb s "eof" then XEof else XErr.

Fixpoint parse_script (a : list arg) : script :=
  match a with
  | AInt k :: ASym e :: rest => (k, xerr_of_sym e) :: parse_script rest
  | _ => []
  end.

Fixpoint parse_bytes_list (l : list arg) : list (list Z) :=
  match l with
  | ABytes b :: r => b :: parse_bytes_list r
  | _ => []
  end.

Definition parse_rop (l : line) : option rop :=
  match l with
  | ("write", [AInt c; ABytes p]) => Some (RoWrite c p)
  | ("writestring", [AInt c; ABytes p]) => Some (RoWriteString c p)
  | ("writebyte", [AInt c; AInt b]) => Some (RoWriteByte c b)
  | ("read", [AInt n]) => Some (RoRead n)
  | ("readbyte", []) => Some RoReadByte
  | ("peek", [AInt n]) => Some (RoPeek n)
  | ("discard", [AInt n]) => Some (RoDiscard n)
  | ("bytes", []) => Some RoBytes
  | ("readfrom", AInt c :: ABytes src :: sc) => Some (RoReadFrom c src (parse_script sc))
  | ("writeto", sc) => Some (RoWriteTo (parse_script sc))
  | ("reset", _) => Some RoReset
  | ("done", []) => Some RoDone
  | _ => None
  end.

Definition parse_bop (l : line) : option bop :=
  match l with
  | ("write", [AInt c; ABytes p]) => Some (BoWrite c p)
  | ("writev", AInt c :: bs) => Some (BoWritev c (parse_bytes_list bs))
  | ("read", [AInt n]) => Some (BoRead n)
  | ("peek", [AInt n]) => Some (BoPeek n)
  | ("discard", [AInt n]) => Some (BoDiscard n)
  | ("readfrom", AInt c :: ABytes src :: sc) => Some (BoReadFrom c src (parse_script sc))
  | ("writeto", sc) => Some (BoWriteTo (parse_script sc))
  | ("reset", [AInt m]) => Some (BoReset m)
  | ("reset", []) => Some (BoReset 0)
  | ("release", []) => Some BoRelease
  | _ => None
  end.

Definition xout_line (name : string) (x : xout) : line :=
  match x with
  | XWrite n e => obs name [AInt n; xerr_arg e]
  | XWriteByte e => obs name [xerr_arg e]
  | XRead d n e => obs name [AInt n; xerr_arg e; ABytes d]
  | XReadByte b e => obs name [AInt b; xerr_arg e]
  | XPeek2 h t => obs name [AInt (zlen h); AInt (zlen t); ABytes h; ABytes t]
  | XPeek e segs => obs name (xerr_arg e :: AInt (zlen segs) :: map ABytes segs)
  | XDiscard n e => obs name [AInt n; xerr_arg e]
  | XBytes d => obs name [ABytes d]
  | XReadFrom n e rem => obs name [AInt n; xerr_arg e; AInt rem]
  | XWriteTo n e recv => obs name [AInt n; xerr_arg e; ABytes recv]
  | XUnit => obs name [ASym "ok"]
  | XInt z => obs name [AInt z]
  | XBool b => obs name [bool_arg b]
  end.

Definition st_bytes_limit : Z := 768.

Definition is_none {A} (o : option A) : bool := match o with None => true | Some _ => false end.

Definition rst_lines (e : ering) : list line :=
  let pre := [bool_arg (is_none e); AInt (RBuffered e); AInt (RAvailable e); AInt (RCap e); AInt (RLen e);
              bool_arg (RIsEmpty e); bool_arg (RIsFull e)] in
  if (RBuffered e <=? st_bytes_limit)%Z then
    match RBytes e with
    | Ret d => [obs "st" (pre ++ [ABytes d])%list]
    | Panic => [panic_line "st"]
    end
  else [obs "st" (pre ++ [ASym "-"])%list].

Definition bst_lines (b : buffer) : list line :=
  let pre := [AInt (BBuffered b); bool_arg (BIsEmpty b); AInt (eb_max b); bool_arg (is_none (eb_ring b));
              AInt (RBuffered (eb_ring b)); AInt (RCap (eb_ring b));
              AInt (LList.Buffered (eb_list b)); AInt (LList.Len (eb_list b))] in
  if (BBuffered b <=? st_bytes_limit)%Z then
    match BPeek b (-1) with
    | Ret (_, segs) => [obs "st" (pre ++ [ABytes (List.concat segs)])%list]
    | Panic => [panic_line "st"]
    end
  else [obs "st" (pre ++ [ASym "-"])%list].

Inductive est := EDead | EFresh | ERingSt (e : ering) | EBufSt (b : buffer).

Definition short_name (name : string) : string := if sym_eqb name "writestring" then "write" else name.

Definition elastic_line (acc : est * list line) (l : line) : est * list line :=
  let '(st, outl) := acc in
  match st with
  | EDead => acc
  | _ =>
    match l with
    | ("new", [ASym k]) =>
        if sym_eqb k "ring" then (ERingSt None, (outl ++ obs "new" [ASym "ok"] :: rst_lines None)%list)
        else (st, (outl ++ [obs "unknown" []])%list)
    | ("new", [ASym _; AInt m]) =>
        match New m with
        | Some b => (EBufSt b, (outl ++ obs "new" [ASym "ok"] :: bst_lines b)%list)
        | None => (EBufSt zero_buffer, (outl ++ obs "new" [ASym "err"] :: bst_lines zero_buffer)%list)
        end
    | (name, _) =>
        match st with
        | ERingSt e =>
            match parse_rop l with
            | None => (st, (outl ++ [obs "unknown" []])%list)
            | Some o =>
                match rstep e o with
                | Ret (e', x) => (ERingSt e', (outl ++ xout_line (short_name name) x :: rst_lines e')%list)
                | Panic => (EDead, (outl ++ [panic_line (short_name name)])%list)
                end
            end
        | EBufSt b =>
            match parse_bop l with
            | None => (st, (outl ++ [obs "unknown" []])%list)
            | Some o =>
                match bstep b o with
                | Ret (b', x) => (EBufSt b', (outl ++ xout_line name x :: bst_lines b')%list)
                | Panic => (EDead, (outl ++ [panic_line name])%list)
                end
            end
        | _ => (st, (outl ++ [obs "unknown" []])%list)
        end
    end
  end.

Definition run_elastic : runner := fun ls => snd (fold_left elastic_line ls (EFresh, [])).
