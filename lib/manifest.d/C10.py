CHECK = dict(
    engine="elastic", design_ref="4 / C10, Appendix A.2",
    text="Full proof. elastic_ring_buffer.go and elastic_ring_list_buffer.go are transcribed method by method into an "
         "executable Gallina model on top of the C09 ring model and the C11 linked-list model (lazy acquisition of the "
         "pooled ring with the pool's capacity as an input, return to the pool when empty, the Len() >= max split in "
         "Write, the writable bookkeeping in Writev, Peek via PeekWithBytes, Discard's two stages, Read/WriteTo across "
         "both parts, Reset/Release). Using only the interfaces proved in C09 (one-step refinement, accounting) and C11 "
         "(one-step refinement of the list), it is proved for every finite operation sequence, every static-size limit, "
         "every pool capacity, every payload size, every split of a payload over Writev segments (empty segments, any "
         "number) and every contract-respecting reader/writer script that both buffers refine a FIFO byte list with "
         "content = ring content ++ list content: outputs of Read/Peek/WriteTo are the next bytes in order, each once; "
         "Peek(n) = first n bytes for 0 < n <= Buffered, everything for n <= 0, ErrShortBuffer beyond; Discard(n) removes "
         "min(n, Buffered); Buffered/IsEmpty agree with the content; once the list is non-empty or the ring is at the "
         "limit, writes leave the ring untouched (order invariant); no panic. Tied to /repo by differential execution "
         "of the real buffers against the extracted model after every operation plus a reference []byte FIFO oracle.",
    note="Two defects of the pinned tree were reproduced as _refuted witnesses, replayed and fixed in /repo: "
         "elastic.Buffer.Peek(n) failed with ErrShortBuffer unless n was exactly the ring part or at most the list part "
         "(root cause and fix in linkedlist.PeekWithBytes, 3230e49; C11's model/spec/proof updated accordingly), and "
         "elastic.Buffer.WriteTo wrote nothing when the ring part was empty (f386600). The pool's capacity policy is an "
         "input, not verified; Peek(n <= 0) is everything only up to MaxInt32 bytes (package convention). Error values "
         "on an empty buffer (ErrIsEmpty vs nil vs EOF) are modelled and compared but not constrained by the property.",
    technique="Coq proof (refinement to a FIFO list composed from the C09 and C11 interfaces, induction over op lists) + differential traces",
)
ENGINE = dict(name="elastic", path="coq/Model/Elastic.v", serves_properties=["C10"],
              kind_free_text="Gallina model of pkg/buffer/elastic (RingBuffer = option ring with pool capacity input; Buffer = limit + RingBuffer + linked list) on Model/Ring.v and Model/LList.v + drv-elastic")
