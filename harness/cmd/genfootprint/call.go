package main

import (
	"go/ast"
	"go/token"
	"go/types"
	"strings"
)

const (
	fnTrigger  = modPath + "/pkg/netpoll.Poller.Trigger"
	fnSubmit   = "github.com/panjf2000/ants/v2.Pool.Submit"
	fnGroupGo  = "golang.org/x/sync/errgroup.Group.Go"
	pkgAtomic  = "sync/atomic"
	pkgSync    = "sync"
	pkgQueue   = modPath + "/pkg/queue"
	pkgLogging = modPath + "/pkg/logging"
)

// external functions that only read / that fill the byte slice they are given
var sliceReaders = map[string]bool{
	"golang.org/x/sys/unix.Write": true, "golang.org/x/sys/unix.Sendto": true, "golang.org/x/sys/unix.Send": true,
	modPath + "/pkg/io.Writev": true, "golang.org/x/sys/unix.Writev": true,
}
var sliceWriters = map[string]bool{
	"golang.org/x/sys/unix.Read": true, "golang.org/x/sys/unix.Recvfrom": true, "golang.org/x/sys/unix.Readv": true,
	"golang.org/x/sys/unix.EpollWait": true, modPath + "/pkg/io.Readv": true,
}

// user code: interface methods and function types through which gnet calls back
var userIfaces = map[string]bool{"EventHandler": true, "Runnable": true}
var userFuncTypes = map[string]string{
	modPath + ".AsyncCallback": "AsyncCallback",
	pkgQueue + ".Func":         "queue.Func",
	modPath + ".RunnableFunc":  "RunnableFunc",
}

func namedOf(t types.Type) *types.Named {
	for {
		switch v := t.(type) {
		case *types.Pointer:
			t = v.Elem()
			continue
		case *types.Named:
			return v
		}
		return nil
	}
}

func typePkgPath(t types.Type) string {
	if n := namedOf(t); n != nil && n.Obj().Pkg() != nil {
		return n.Obj().Pkg().Path()
	}
	return ""
}

func (a *az) resolveFuncValue(e ast.Expr) *fnode {
	switch v := unparen(e).(type) {
	case *ast.FuncLit:
		return a.w.lits[v]
	case *ast.Ident:
		if o, ok := a.p.info.Uses[v].(*types.Func); ok {
			return a.w.funcs[o.Origin()]
		}
	case *ast.SelectorExpr:
		if sel := a.p.info.Selections[v]; sel != nil {
			if o, ok := sel.Obj().(*types.Func); ok {
				return a.w.funcs[o.Origin()]
			}
		} else if o, ok := a.p.info.Uses[v.Sel].(*types.Func); ok {
			return a.w.funcs[o.Origin()]
		}
	}
	return nil
}

func (a *az) exprText(e ast.Expr) string {
	p1 := a.w.l.fset.Position(e.Pos())
	switch v := unparen(e).(type) {
	case *ast.FuncLit:
		return "func@" + a.w.l.relPos(v.Pos())
	case *ast.Ident:
		return v.Name
	case *ast.SelectorExpr:
		return a.exprText(v.X) + "." + v.Sel.Name
	}
	return "expr@" + p1.String()
}

// spawnArg records a function value handed to another goroutine (or to the loop's task queue).
func (a *az) spawnArg(kind string, f ast.Expr) {
	t := a.resolveFuncValue(f)
	a.sum.spawns = append(a.sum.spawns, spawn{kind: kind, target: t, text: a.exprText(f), from: a.fn.name})
	if _, isLit := unparen(f).(*ast.FuncLit); !isLit {
		a.expr(f, mRead) // evaluating a method value reads its receiver
	}
	a.escapeAll(f, f.Pos())
}

func (a *az) spawnCall(kind string, c *ast.CallExpr) {
	a.spawnArg(kind, c.Fun)
	for _, arg := range c.Args {
		a.expr(arg, mRead)
		a.escapeAll(arg, c.Pos())
	}
}

func (a *az) args(c *ast.CallExpr, escape bool) {
	for _, arg := range c.Args {
		a.expr(arg, mRead)
		if escape {
			a.escapeAll(arg, c.Pos())
		}
	}
}

// ownedArg: is the argument (a pointer into an object we still own) -> root variable
func (a *az) ownedArg(x ast.Expr) (*types.Var, bool) {
	x = unparen(x)
	if u, ok := x.(*ast.UnaryExpr); ok && u.Op == token.AND {
		r, in := a.pathRoot(u.X)
		if _, isLit := unparen(u.X).(*ast.CompositeLit); isLit {
			return nil, false
		}
		return r, a.ownedRoot(r, in)
	}
	if id, ok := x.(*ast.Ident); ok {
		if o, ok := a.p.info.Uses[id].(*types.Var); ok {
			if _, isPtr := o.Type().Underlying().(*types.Pointer); isPtr {
				return o, a.ownedRoot(o, true)
			}
		}
	}
	return nil, false
}

func (a *az) call(c *ast.CallExpr, _ bool) {
	fun := unparen(c.Fun)
	// conversion
	if tv, ok := a.p.info.Types[fun]; ok && tv.IsType() {
		a.args(c, false)
		return
	}
	// builtin
	if id, ok := fun.(*ast.Ident); ok {
		if b, ok := a.p.info.Uses[id].(*types.Builtin); ok {
			a.builtin(b.Name(), c)
			return
		}
	}
	// directly invoked function literal
	if fl, ok := fun.(*ast.FuncLit); ok {
		a.args(c, false)
		a.inlineLit(fl)
		return
	}
	callee := a.w.staticCallee(a.p, c)
	var sel *types.Selection
	var selx *ast.SelectorExpr
	if s, ok := fun.(*ast.SelectorExpr); ok {
		selx = s
		sel = a.p.info.Selections[s]
	}
	if callee == nil {
		a.valueCall(c, fun)
		return
	}
	full := funcFull(callee)
	sig := callee.Type().(*types.Signature)

	// sync/atomic functions on &field
	if callee.Pkg() != nil && callee.Pkg().Path() == pkgAtomic && sig.Recv() == nil && len(c.Args) > 0 {
		kind := "AW"
		if strings.HasPrefix(callee.Name(), "Load") {
			kind = "AR"
		}
		if u, ok := unparen(c.Args[0]).(*ast.UnaryExpr); ok && u.Op == token.AND {
			target := unparen(u.X)
			if ix, ok := target.(*ast.IndexExpr); ok {
				a.expr(ix.Index, mRead)
				if loc, ok := a.fieldOf(ix.X); ok {
					a.record(loc+"[]", kind, ix, ix.Pos())
				}
				a.expr(ix.X, mAddr)
			} else if loc, ok := a.fieldOf(target); ok {
				a.record(loc, kind, target, target.Pos())
				a.expr(target, mAddr)
			} else {
				a.expr(c.Args[0], mRead)
			}
		} else {
			a.expr(c.Args[0], mRead)
		}
		for _, arg := range c.Args[1:] {
			a.expr(arg, mRead)
			a.escapeAll(arg, c.Pos())
		}
		return
	}
	// methods of sync / sync/atomic types on a field: internally synchronised
	if sel != nil && sig.Recv() != nil {
		if pp := typePkgPath(sig.Recv().Type()); pp == pkgAtomic || pp == pkgSync {
			kind := "AW"
			if callee.Name() == "Load" {
				kind = "AR"
			}
			if loc, ok := a.fieldOf(selx.X); ok {
				a.record(loc, kind, selx.X, selx.X.Pos())
				a.expr(selx.X, mAddr)
			} else {
				a.base(selx.X)
			}
			for _, arg := range c.Args {
				if fl, ok := unparen(arg).(*ast.FuncLit); ok {
					a.inlineLit(fl)
					continue
				}
				a.expr(arg, mRead)
				a.escapeAll(arg, c.Pos())
			}
			return
		}
	}
	// spawn boundaries
	switch full {
	case fnTrigger:
		a.base(selx.X)
		a.expr(c.Args[0], mRead)
		a.spawnArg("trigger", c.Args[1])
		a.expr(c.Args[2], mRead)
		a.escapeAll(c.Args[2], c.Pos())
		if fn := a.w.funcs[callee.Origin()]; fn != nil {
			a.sum.edges = append(a.sum.edges, edge{callee: fn, guards: append([]guard(nil), a.guards...)})
		}
		return
	case fnSubmit:
		a.base(selx.X)
		a.spawnArg("submit", c.Args[0])
		return
	case fnGroupGo:
		a.base(selx.X)
		a.implicitHops(selx, sel)
		a.spawnArg("errgroup", c.Args[0])
		return
	}
	// interface method
	if sel != nil && sig.Recv() != nil {
		if _, isIface := sig.Recv().Type().Underlying().(*types.Interface); isIface {
			a.base(selx.X)
			if n := namedOf(sel.Recv()); n != nil && n.Obj().Pkg() != nil && n.Obj().Pkg().Path() == modPath && userIfaces[n.Obj().Name()] {
				a.sum.cbs = append(a.sum.cbs, cbsite{kind: n.Obj().Name() + "." + callee.Name(), via: a.fn.name, guards: append([]guard(nil), a.guards...)})
				a.args(c, true)
				return
			}
			var impls []*fnode
			if n := namedOf(sel.Recv()); n != nil && n.Obj().Pkg() != nil && strings.HasPrefix(n.Obj().Pkg().Path(), modPath) {
				impls = a.w.implsOf(callee)
			}
			if len(impls) == 0 {
				a.boundaryArgs(c, full)
				return
			}
			for _, fn := range impls {
				a.staticEdge(fn, c, nil, true)
			}
			a.walkArgs(c)
			return
		}
	}
	// function or method in an analysed package
	if fn := a.w.funcs[callee.Origin()]; fn != nil {
		var recv ast.Expr
		if sel != nil && sig.Recv() != nil {
			recv = selx.X
		}
		a.staticEdge(fn, c, recv, false)
		if recv != nil {
			a.recvEval(recv, sig)
			a.implicitHops(selx, sel)
		}
		a.walkArgs(c)
		return
	}
	// boundary / external
	if sel != nil && sig.Recv() != nil {
		_, ptrRecv := sig.Recv().Type().(*types.Pointer)
		bt := a.p.info.Types[selx.X].Type
		_, baseIsPtr := bt.Underlying().(*types.Pointer)
		throughPtr := false // promoted through an embedded pointer: the receiver is that pointer's target
		if len(sel.Index()) > 1 && sel.Indirect() {
			throughPtr = true
		}
		if loc, ok := a.fieldOf(selx.X); ok && ptrRecv && !baseIsPtr && !throughPtr {
			// method with pointer receiver on a struct-valued field of ours: may mutate it
			a.record(loc, "W", selx.X, selx.X.Pos())
			a.expr(selx.X, mAddr)
		} else {
			a.base(selx.X)
			if !ptrRecv && !baseIsPtr {
				a.expr(selx.X, mRead)
			}
		}
		a.implicitHops(selx, sel)
	}
	a.boundaryArgs(c, full)
}

// recvEval evaluates the receiver expression of a method call into an analysed package.
func (a *az) recvEval(recv ast.Expr, sig *types.Signature) {
	bt := a.p.info.Types[recv].Type
	_, baseIsPtr := bt.Underlying().(*types.Pointer)
	_, ptrRecv := sig.Recv().Type().(*types.Pointer)
	switch {
	case baseIsPtr:
		a.expr(recv, mRead)
	case ptrRecv:
		a.expr(recv, mAddr) // implicit &recv
	default:
		a.expr(recv, mRead) // value receiver: copies the struct
	}
}

func (a *az) walkArgs(c *ast.CallExpr) {
	for _, arg := range c.Args {
		if fl, ok := unparen(arg).(*ast.FuncLit); ok {
			a.inlineLit(fl) // run synchronously by the callee
			continue
		}
		a.expr(arg, mRead)
	}
}

// funcArgs: a named function or method value passed to a callee that calls that
// parameter runs on this goroutine.
func (a *az) funcArgs(fn *fnode, c *ast.CallExpr, off int) {
	for i, arg := range c.Args {
		if _, isLit := unparen(arg).(*ast.FuncLit); isLit {
			continue
		}
		t := a.resolveFuncValue(arg)
		if t == nil {
			continue
		}
		if _, isCall := unparen(arg).(*ast.CallExpr); isCall {
			continue
		}
		cs := a.w.summarize(fn, 0)
		if cs == nil || cs.callsParam[i+off] {
			a.sum.edges = append(a.sum.edges, edge{callee: t, guards: append([]guard(nil), a.guards...)})
		}
	}
}

// staticEdge records a call edge with the ownership mask of its arguments and
// propagates escapes reported by the callee.
func (a *az) staticEdge(fn *fnode, c *ast.CallExpr, recv ast.Expr, viaIface bool) {
	var mask uint64
	owners := map[int]*types.Var{}
	off := 0
	hasRecv := fn.obj != nil && fn.obj.Type().(*types.Signature).Recv() != nil
	if hasRecv {
		off = 1
		if recv != nil {
			var r *types.Var
			var owned bool
			bt := a.p.info.Types[recv].Type
			if _, isPtr := bt.Underlying().(*types.Pointer); isPtr {
				r, owned = a.ownedArg(recv)
			} else {
				var in bool
				r, in = a.pathRoot(recv)
				owned = a.ownedRoot(r, in)
			}
			if owned {
				mask |= 1
				owners[0] = r
			}
		}
	}
	for i, arg := range c.Args {
		idx := i + off
		if idx >= len(fn.params) || idx >= 60 {
			break
		}
		if r, owned := a.ownedArg(arg); owned {
			mask |= 1 << uint(idx)
			owners[idx] = r
		} else {
			// anything else that carries a fresh object into the callee: give up on it
			for _, cv := range a.carriers(arg) {
				if _, isLit := unparen(arg).(*ast.FuncLit); isLit {
					continue // synchronous closure: analysed inline
				}
				a.escape(cv, c.Pos())
			}
		}
	}
	a.sum.edges = append(a.sum.edges, edge{callee: fn, mask: mask, guards: append([]guard(nil), a.guards...)})
	a.funcArgs(fn, c, off)
	if mask != 0 {
		cs := a.w.summarize(fn, mask)
		for idx, r := range owners {
			if cs == nil || cs.escaped[idx] {
				a.escape(r, c.End())
			}
		}
	}
}

func (a *az) boundaryArgs(c *ast.CallExpr, full string) {
	for _, arg := range c.Args {
		x := unparen(arg)
		if fl, ok := x.(*ast.FuncLit); ok {
			a.inlineLit(fl)
			continue
		}
		a.expr(arg, mRead)
		a.escapeAll(arg, c.Pos())
		if strings.HasPrefix(full, pkgLogging+".") {
			continue
		}
		if u, ok := x.(*ast.UnaryExpr); ok && u.Op == token.AND {
			if loc, ok := a.fieldOf(u.X); ok {
				a.record(loc, "W", u.X, u.Pos()) // address handed to code we do not see
			}
			continue
		}
		if loc, ok := a.fieldOf(x); ok {
			if _, isSlice := a.p.info.Types[x].Type.Underlying().(*types.Slice); isSlice {
				if sliceReaders[full] {
					a.record(loc+"[]", "R", x, x.Pos())
				} else { // sliceWriters, and anything we do not know
					a.record(loc+"[]", "W", x, x.Pos())
				}
			}
		}
	}
}

func (a *az) valueCall(c *ast.CallExpr, fun ast.Expr) {
	a.expr(fun, mRead)
	if id, ok := fun.(*ast.Ident); ok {
		if o, ok := a.p.info.Uses[id].(*types.Var); ok {
			for i, pv := range a.fn.params {
				if pv == o {
					a.sum.callsParam[i] = true
				}
			}
		}
	}
	t := a.p.info.Types[fun].Type
	if n, ok := t.(*types.Named); ok && n.Obj().Pkg() != nil {
		if k, ok := userFuncTypes[n.Obj().Pkg().Path()+"."+n.Obj().Name()]; ok {
			a.sum.cbs = append(a.sum.cbs, cbsite{kind: k, via: a.fn.name, guards: append([]guard(nil), a.guards...)})
		}
	}
	for _, arg := range c.Args {
		if fl, ok := unparen(arg).(*ast.FuncLit); ok {
			a.inlineLit(fl)
			continue
		}
		a.expr(arg, mRead)
		a.escapeAll(arg, c.Pos())
	}
}

func (a *az) builtin(name string, c *ast.CallExpr) {
	switch name {
	case "delete":
		if len(c.Args) == 2 {
			if loc, ok := a.fieldOf(c.Args[0]); ok {
				a.record(loc+"[]", "W", c.Args[0], c.Pos())
			}
			a.expr(c.Args[0], mRead)
			a.expr(c.Args[1], mRead)
		}
	case "copy":
		if len(c.Args) == 2 {
			if loc, ok := a.fieldOf(c.Args[0]); ok {
				a.record(loc+"[]", "W", c.Args[0], c.Pos())
			}
			if loc, ok := a.fieldOf(c.Args[1]); ok {
				a.record(loc+"[]", "R", c.Args[1], c.Pos())
			}
			a.expr(c.Args[0], mRead)
			a.expr(c.Args[1], mRead)
		}
	case "append":
		for i, arg := range c.Args {
			if i == 0 {
				if loc, ok := a.fieldOf(arg); ok {
					a.record(loc+"[]", "R", arg, c.Pos())
				}
			}
			a.expr(arg, mRead)
		}
	case "len", "cap":
		for _, arg := range c.Args {
			isArr := false
			if t := a.p.info.Types[arg].Type; t != nil {
				switch u := t.Underlying().(type) {
				case *types.Array:
					isArr = true
				case *types.Pointer:
					_, isArr = u.Elem().Underlying().(*types.Array)
				}
			}
			if isArr {
				a.expr(arg, mAddr)
			} else {
				a.expr(arg, mRead)
			}
		}
	default:
		for _, arg := range c.Args {
			if tv, ok := a.p.info.Types[arg]; ok && tv.IsType() {
				continue
			}
			a.expr(arg, mRead)
		}
	}
}
