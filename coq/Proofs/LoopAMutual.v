(* The mutual block of Model/Loop.v (el_close ... hcall) preserves the C04/C07 invariant. *)
From GV Require Import Lib.Trace Model.Loop Spec.LoopSpec
  Proofs.LoopInv Proofs.LoopAState Proofs.LoopATrans Proofs.LoopAPrims Proofs.LoopAUnfold.
From Coq Require Import Lia Permutation.
Open Scope string_scope.
Open Scope list_scope.
Open Scope Z_scope.

(* the handler's dispatch on the next line, with decidable tests *)
Lemma handler_S_eqb : forall f cid w,
  handler (S f) cid w =
  match pull w with
  | (None, w1) => ((ANone, None), w1)
  | (Some l, w1) =>
      if String.eqb (fst l) "hret" then
        match snd l with
        | a :: rest => ((action_of a, match rest with ABytes b :: _ => Some b | _ => None end), w1)
        | [] => ((ANone, None), desync "expected-h" w1)
        end
      else if String.eqb (fst l) "h" then
        match snd l with
        | ASym call :: args => handler f cid (hcall f cid call args w1)
        | _ => ((ANone, None), desync "expected-h" w1)
        end
      else ((ANone, None), desync "expected-h" w1)
  end.
Proof.
  intros. rewrite handler_S. destruct (pull w) as [[[ln la]|] w1]; [|reflexivity].
  cbn [fst snd].
  destruct (String.eqb_spec ln "hret") as [->|H1]; [destruct la; reflexivity|].
  destruct (String.eqb_spec ln "h") as [->|H2]; [destruct la as [|[]]; reflexivity|].
  sdef ln.
Qed.

Definition Opened (cid : Z) := At cid (fun c _ => c_opened c = true).
Definition OpFd (cid fd : Z) := At cid (fun c _ => c_opened c = true /\ c_fd c = fd).

Section Mutual.
Variable c0 : pst.
Notation Iv := (Inv pstep c0).

Definition spec (f : nat) : Prop :=
  (forall cid e w L P N, Iv (Rel L P N) w -> Iv (Rel L P N) (snd (el_close f cid e w))) /\
  (forall cid w L P N, In cid L -> Iv (Rel L P N) w -> Iv (Rel L P N) (close_drain f cid w)) /\
  (forall cid d w L P N, Iv (Rel L P N) w -> Iv (Rel L P N) (snd (conn_write f cid d w))) /\
  (forall cid d n w L P N, Iv (RelX L P N (Opened cid)) w ->
     Iv (Rel L P N) (snd (conn_write_loop f cid d n w))) /\
  (forall cid segs n w L P N, Iv (RelX L P N (Opened cid)) w ->
     Iv (Rel L P N) (snd (conn_writev_loop f cid segs n w))) /\
  (forall cid segs w L P N, Iv (Rel L P N) w -> Iv (Rel L P N) (snd (conn_writev f cid segs w))) /\
  (forall cid sent w L P N, Iv (Rel L P N) w -> Iv (Rel L P N) (snd (el_write f cid sent w))) /\
  (forall cid w L P N, Iv (Rel L P N) w -> Iv (Rel L P N) (snd (handler f cid w))) /\
  (forall cid call args w L P N, Iv (Rel L P N) w -> Iv (Rel L P N) (hcall f cid call args w)).

(* guards *)
Lemma owns_opened : forall L P N m cs s cid,
  RelQ L P N None (m, cs) s -> Led L P None cs s -> c_opened (getc s cid) = true ->
  owns cs (c_fd (getc s cid)) = true.
Proof. intros. eapply Led_owns_holder; eauto. left. auto. Qed.

Lemma I_opened_fd : forall L P N w cid,
  Iv (RelX L P N (Opened cid)) w -> Iv (RelX L P N (OpFd cid (c_fd (wc w cid)))) w.
Proof.
  intros L P N w cid H. eapply Inv_weaken; [exact H|].
  intros c _ [HR [H1 H2]]. split; [exact HR|]. split; [exact H1|]. split; [exact H2|reflexivity].
Qed.

Lemma I_fd_opened : forall L P N w cid fd,
  Iv (RelX L P N (OpFd cid fd)) w -> Iv (RelX L P N (Opened cid)) w.
Proof.
  intros L P N w cid fd H. eapply Inv_weaken; [exact H|].
  intros c _ [HR [H1 [H2 H3]]]. split; [exact HR|]. split; [exact H1|exact H2].
Qed.

Lemma I_assert_opened : forall L P N w cid,
  Iv (Rel L P N) w -> c_opened (wc w cid) = true -> Iv (RelX L P N (Opened cid)) w.
Proof.
  intros. apply I_assert_At; auto. intros _. left. exact H0.
Qed.

(* sys_wr on the descriptor of an open connection *)
Lemma I_sys_wr_open : forall L P N cid fd src exact w k w',
  Iv (RelX L P N (OpFd cid fd)) w -> sys_wr cid fd src exact w = (k, w') ->
  Iv (RelX L P N (OpFd cid fd)) w'.
Proof.
  intros L P N cid fd src exact w k w' H Hs.
  eapply I_sys_wr; [apply Stable_At|exact H| |exact Hs].
  intros m cs Hh [HR [_ [Ho Hf]]] HL. rewrite <- Hf. eapply owns_opened; eauto.
Qed.

Lemma I_epctl_open : forall L P N cid fd op rw et w r w',
  In op ["add"; "mod"; "del"] ->
  Iv (RelX L P N (OpFd cid fd)) w -> epctl op fd rw et w = (r, w') ->
  Iv (RelX L P N (OpFd cid fd)) w'.
Proof.
  intros L P N cid fd op rw et w r w' Hop H Hs.
  eapply I_epctl; [apply Stable_At|exact Hop|exact H| |exact Hs].
  intros m cs Hh [HR [_ [Ho Hf]]] _ HL. rewrite <- Hf. eapply owns_opened; eauto.
Qed.

Lemma I_wsetc_out_open : forall L P N cid fd w x,
  Iv (RelX L P N (OpFd cid fd)) w ->
  Iv (RelX L P N (OpFd cid fd)) (wsetc w cid (c_set_out (wc w cid) x)).
Proof.
  intros L P N cid fd w x H.
  eapply Inv_wsetc; [exact H|]. intros c _ [HR [H1 [H2 H3]]]. split.
  - apply RelQ_setc_same; auto.
  - apply At_setc; [|split; auto]. cbn. auto.
Qed.

Lemma el_close_step : forall f, spec f ->
  forall cid e w L P N, Iv (Rel L P N) w -> Iv (Rel L P N) (snd (el_close (S f) cid e w)).
Proof.
  intros f (IHclose & IHdrain & _ & _ & _ & _ & _ & IHhandler & _) cid e w L P N H.
  rewrite el_close_S. cbv zeta.
  destruct (c_opened (wc w cid)) eqn:Hop; cbn [negb orb]; [|exact H].
  destruct (alookup (c_fd (wc w cid)) (l_reg (st w))) as [x|] eqn:Hreg; [|exact H].
  set (w1 := with_st w (set_reg (st w) (aremove (c_fd (wc w cid)) (l_reg (st w))))).
  set (w2 := emit (obs "cb" [ASym "close"; AInt cid; err_sym e]) w1).
  assert (H2 : Iv (Rel (cid :: L) P N) w2).
  { unfold w2, w1. eapply Inv_st_emit; [exact H|reflexivity|].
    intros [m cs] Hh HR.
    destruct (RelQ_close_start L P N m cs (st w) cid HR Hop) as [Hph HR'].
    { unfold regs. unfold wc in Hreg. rewrite Hreg. discriminate. }
    exists (aset cid PClosed m, cs). split; [apply pstep_cb_close; exact Hph|exact HR']. }
  destruct (handler f cid w2) as [[act rep] w3] eqn:Hh3.
  assert (H3 : Iv (Rel (cid :: L) P N) w3).
  { specialize (IHhandler cid w2 _ P N H2). rewrite Hh3 in IHhandler. exact IHhandler. }
  set (w4 := close_drain f cid w3).
  assert (H4 : Iv (Rel (cid :: L) P N) w4) by (apply IHdrain; [left; reflexivity|exact H3]).
  set (fd4 := c_fd (wc w4 cid)).
  set (w5 := wsetc w4 cid (c_release (wc w4 cid))).
  pose (F := At cid (fun c _ => c_opened c = false /\ c_fd c = fd4)).
  assert (H5 : Iv (RelX (cid :: L) P N F) w5).
  { unfold w5. eapply Inv_wsetc; [exact H4|]. intros c _ HR. split.
    - apply RelQ_release; [right; left; reflexivity|exact HR].
    - split; [eapply holder_lt; [exact (proj1 HR)|right; left; left; reflexivity]|].
      rewrite getc_setc, Z.eqb_refl. unfold c_release, fd4, wc.
      destruct (c_udp (getc (st w4) cid)); split; reflexivity. }
  destruct (epctl "del" fd4 false false w5) as [r0 w6] eqn:He6.
  assert (H6 : Iv (RelX (cid :: L) P N F) w6).
  { eapply I_epctl; [apply Stable_At|cbn; tauto|exact H5| |exact He6].
    intros m cs _ _ Hne. congruence. }
  destruct (sys "close" [AInt fd4] w6) as [k1 w7] eqn:Hs7.
  assert (H7 : Iv (Rel L P N) w7).
  { eapply (I_sys_close_L c0 L P N F cid fd4); [apply Stable_At| |exact H6|exact Hs7].
    intros m s [_ HG]. exact HG. }
  destruct (match r0 with RNil => match k1 with KErr _ => true | _ => false end | _ => true end);
    [exact H7|].
  destruct act; [exact H7|apply IHclose; exact H7|exact H7].
Qed.

End Mutual.
