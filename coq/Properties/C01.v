(* C01 -- inbound stream integrity.  Statements only; proofs in Proofs/LoopData.v and Proofs/LoopProgress.v. *)
From GV Require Import Lib.Trace Model.Loop Spec.LoopSpec Proofs.LoopData Proofs.LoopProgress.
Open Scope Z_scope.

(* For every input stream: what Read/Next/Peek/WriteTo hand to the handler is always the
   front of the bytes the kernel delivered for that connection and that were not consumed
   yet (no loss, duplication, reordering or alteration, whatever the segmentation and
   whatever the handler consumes); Discard advances by what it reports; InboundBuffered
   is the length of the unconsumed rest; every delivery is offered to OnTraffic at once
   (so all data precedes the OnClose caused by end of stream). *)
Theorem C01_inbound_integrity : forall i t, run_history i = Some t -> inbound_ok t = true.
Proof. exact inbound_holds. Qed.
Print Assumptions C01_inbound_integrity.

(* Progress ("a peer that keeps sending is never left with readable data that is not handed to
   OnTraffic"), edge-triggered mode, where no new event announces data a read left behind: for
   every input stream, a read that filled the buffer it was given is followed -- before the loop
   goes back to waiting -- by another read, a queued read task, or the close of that connection.
   (Level-triggered: the kernel reports the descriptor again; nothing to prove on the loop side.) *)
Theorem C01_inbound_progress : forall i t, run_history i = Some t -> in_progress_ok (is_et i) t = true.
Proof. exact in_progress_holds. Qed.
Print Assumptions C01_inbound_progress.
