(* C03 — asynchronous requests run exactly once: no lost wake-up of an event loop.
   Statements only; proofs live in Proofs/Wakeup*.v.
   Model: Model/Wakeup.v — the interleavings, at the granularity of single atomic operations,
   queue linearization points and eventfd/epoll system calls, of any number of producers running
   Trigger with the event loop running Polling (pkg/netpoll/poller_epoll_{default,ultimate}.go),
   on top of the atomic-queue specification of the two task queues (C13: each queue is
   (items, length) with Enqueue = link; count and Dequeue = unlink; decount | empty).
   Assumptions: sync/atomic is sequentially consistent; the queues behave as their specification
   (C13); eventfd/epoll edge semantics as written in the model (every write raises a fresh edge, a
   reported edge is reported once, write fails only with EAGAIN: g_fault = false); the int32 length
   counters stay in range (g_ovf = false); the loop keeps running (no shutdown).  sane s is
   g_ovf = false /\ g_fault = false. *)
From GV Require Import Lib.Trace Lib.Interleave Model.Wakeup
  Proofs.WakeupBase Proofs.WakeupInv Proofs.WakeupProofs.
Open Scope Z_scope.
Open Scope list_scope.

(* wake_inv: the conjunction K /\ I0 /\ I1 /\ G_W /\ G_chkU of DESIGN Appendix A.5 holds in every
   reachable state.  n_p1 q = number of Trigger calls (of producers and of the loop itself) that
   have linked into q but not yet counted, n_p2 = counted and before the CAS, n_p3 = CAS won and
   eventfd write still to do; d_q = 1 iff the loop is between unlink and decount on q;
   cons_B = the loop has chores pending or in progress and has not yet stored 0; cons_W = the loop
   is at epoll_wait or in I/O callbacks with no chores pending; cons_wr = the loop is at its own
   eventfd write. *)
Theorem C03_wake_inv : forall s, reachable wk_init wk_step s ->
  g_ovf (w_gh s) = false /\ g_fault (w_gh s) = false ->
  (flag (w_sh s) = 0 \/ flag (w_sh s) = 1) /\
  lenU (w_sh s) = Z.of_nat (List.length (itemsU (w_sh s))) - n_p1 QU s + d_q QU s /\
  lenL (w_sh s) = Z.of_nat (List.length (itemsL (w_sh s))) - n_p1 QL s + d_q QL s /\
  (cons_wr s = true -> flag (w_sh s) = 1) /\
  (flag (w_sh s) = 1 -> eff_edge (w_sh s) = true \/ 0 < n_p3 s \/ cons_wr s = true \/ cons_B s = true) /\
  (cons_W s = true -> flag (w_sh s) = 0 -> (itemsU (w_sh s) <> [] \/ itemsL (w_sh s) <> []) ->
     eff_edge (w_sh s) = true \/ 0 < n_p1 QU s + n_p1 QL s + n_p2 s + n_p3 s) /\
  (c_pc (con s) = CChkU -> flag (w_sh s) = 0 -> itemsL (w_sh s) <> [] ->
     eff_edge (w_sh s) = true \/ 0 < n_p1 QU s + n_p1 QL s + n_p2 s + n_p3 s).
Proof. exact wake_inv. Qed.
Print Assumptions C03_wake_inv.

(* no lost wake-up: in every quiescent state (no Trigger call in flight, the loop at epoll_wait,
   nothing for epoll_wait to report) both queues are empty: every published request has been taken *)
Theorem C03_no_lost_wakeup : forall s, reachable wk_init wk_step s ->
  g_ovf (w_gh s) = false /\ g_fault (w_gh s) = false ->
  (forall t, t_pc (get_trig (trigs s) t) = TIdle) /\ c_pc (con s) = CWait /\ eff_edge (w_sh s) = false ->
  itemsU (w_sh s) = [] /\ itemsL (w_sh s) = [].
Proof. exact no_lost_wakeup. Qed.
Print Assumptions C03_no_lost_wakeup.

(* quiescence or progress: a reachable state is quiescent with empty queues, or a Trigger call in
   flight has an enabled step, or nobody is in flight and the loop has an enabled step (it is not
   at epoll_wait, or epoll_wait will report the eventfd).  Under weak fairness (an assumption about
   the Go scheduler and the kernel, not a theorem) every request is therefore eventually executed. *)
Theorem C03_quiescence_or_progress : forall s, reachable wk_init wk_step s ->
  g_ovf (w_gh s) = false /\ g_fault (w_gh s) = false ->
  (((forall t, t_pc (get_trig (trigs s) t) = TIdle) /\ c_pc (con s) = CWait /\ eff_edge (w_sh s) = false) /\
   itemsU (w_sh s) = [] /\ itemsL (w_sh s) = []) \/
  (exists t, t_pc (get_trig (trigs s) t) <> TIdle /\
             exists s1 o d, trig_step s t (CStep []) = (s1, o, d) /\ forall e, In e o -> e <> EvStuck t) \/
  ((forall t, t_pc (get_trig (trigs s) t) = TIdle) /\ (c_pc (con s) <> CWait \/ eff_edge (w_sh s) = true)).
Proof. exact quiescence_or_progress. Qed.
Print Assumptions C03_quiescence_or_progress.
