(* Basic lemmas for the wake-up proofs: thread maps, weighted counts of
   program counters, the abstract view of a state (the quantities the
   invariant of DESIGN Appendix A.5 speaks about), and the frame properties of
   the loop's thread-local computations (run_evs, resume, exec_task). *)
From GV Require Import Lib.Trace Lib.Interleave Model.Wakeup.
From Coq Require Import Lia Arith ZifyBool.
Open Scope Z_scope.
Open Scope list_scope.

Ltac splits := repeat match goal with |- _ /\ _ => split end.
Ltac inv H := inversion H; subst; clear H.

(* ---- thread maps ---- *)
Lemma get_nil : forall t, get_trig [] t = idle_trig.
Proof. intro t; unfold get_trig; destruct t; reflexivity. Qed.

Lemma get_put_same : forall ths t x, get_trig (put_trig ths t x) t = x.
Proof.
  intros ths t; revert ths; induction t as [|t IH]; intros ths x; destruct ths; cbn; try reflexivity.
  - apply (IH []).
  - apply IH.
Qed.

Lemma get_put_other : forall ths t t' x, t <> t' -> get_trig (put_trig ths t x) t' = get_trig ths t'.
Proof.
  intros ths t; revert ths; induction t as [|t IH]; intros ths t' x Hne; destruct ths, t'; cbn; try congruence; try reflexivity.
  - destruct t'; reflexivity.
  - specialize (IH [] t' x). unfold get_trig in *. rewrite IH by congruence. destruct t'; reflexivity.
  - apply IH; congruence.
Qed.

(* ---- weighted counts ---- *)
Definition zero_idle (w : trig -> Z) : Prop := w idle_trig = 0.
Definition nonneg (w : trig -> Z) : Prop := forall th, 0 <= w th.

Lemma tot_nil_put : forall w t x, zero_idle w -> tot w (put_trig [] t x) = w x.
Proof.
  intros w t x Hz. induction t; cbn; [lia|]. unfold tot in IHt. rewrite IHt. unfold zero_idle in Hz. lia.
Qed.

Lemma tot_put : forall w ths t x, zero_idle w ->
  tot w (put_trig ths t x) = tot w ths - w (get_trig ths t) + w x.
Proof.
  intros w ths t; revert ths; induction t as [|t IH]; intros ths x Hz; destruct ths; cbn.
  - unfold get_trig; cbn. unfold zero_idle in Hz. lia.
  - unfold get_trig; cbn. lia.
  - pose proof (tot_nil_put w t x Hz) as E. unfold tot in E. rewrite E.
    unfold get_trig; cbn. unfold zero_idle in Hz. destruct t; cbn; lia.
  - specialize (IH ths x Hz). unfold tot in IH. rewrite IH. unfold get_trig; cbn. lia.
Qed.

Lemma tot_nonneg : forall w ths, nonneg w -> 0 <= tot w ths.
Proof.
  intros w ths Hn. induction ths as [|th r IH]; cbn; [lia|]. specialize (Hn th). unfold tot in IH. lia.
Qed.

Lemma tot_ge : forall w ths t, nonneg w -> zero_idle w -> w (get_trig ths t) <= tot w ths.
Proof.
  intros w ths; induction ths as [|th r IH]; intros t Hn Hz.
  - rewrite get_nil. unfold zero_idle in Hz. cbn. lia.
  - destruct t; cbn.
    + unfold get_trig; cbn. pose proof (tot_nonneg w r Hn) as P. unfold tot in P. lia.
    + specialize (IH t Hn Hz). unfold get_trig in *; cbn. pose proof (Hn th). unfold tot in IH. lia.
Qed.

Lemma tot_all_idle : forall w ths, zero_idle w ->
  (forall t, t_pc (get_trig ths t) = TIdle) -> (forall x, w (mkTrig TIdle x) = 0) -> tot w ths = 0.
Proof.
  intros w ths Hz; induction ths as [|th r IH]; intros Hall Hw; cbn; [reflexivity|].
  assert (E : tot w r = 0). { apply IH; [|exact Hw]. intro t. apply (Hall (S t)). }
  unfold tot in E. rewrite E. specialize (Hall O). unfold get_trig in Hall; cbn in Hall.
  destruct th as [p x]; cbn in Hall; subst p. rewrite Hw. reflexivity.
Qed.

Lemma z_p1 : forall q, zero_idle (w_p1 q). Proof. intros []; reflexivity. Qed.
Lemma z_p2 : zero_idle w_p2. Proof. reflexivity. Qed.
Lemma z_p3 : zero_idle w_p3. Proof. reflexivity. Qed.
Lemma nn_p1 : forall q, nonneg (w_p1 q).
Proof. intros q th. unfold w_p1. destruct (t_pc th) as [| |[]|[]| | |], q; lia. Qed.
Lemma nn_p2 : nonneg w_p2. Proof. intro th. unfold w_p2. destruct (t_pc th); lia. Qed.
Lemma nn_p3 : nonneg w_p3. Proof. intro th. unfold w_p3. destruct (t_pc th); lia. Qed.

(* ---- int32 ---- *)
Lemma wrap32_small : forall a, in_i32 a = true -> wrap32 a = a.
Proof.
  intros a H. unfold in_i32 in H. unfold wrap32. rewrite Z.mod_small by lia. lia.
Qed.

(* ---- the abstract view ---- *)
(* classes of the loop's program counter, as integers so that lia decides the invariant *)
Definition ccls := Z.
Definition KW : ccls := 0.      (* waiting, or I/O callbacks with no chores pending *)
Definition KB : ccls := 1.      (* chores pending or in progress, before the store of 0 *)
Definition KChkL : ccls := 2.
Definition KChkU : ccls := 3.
Definition KCas : ccls := 4.
Definition KWr : ccls := 5.

Definition pendB (c : cons) : bool :=
  match c_phase c with PhEvents => c_chores c || has_efd (c_evs c) | _ => true end.

Definition cls_of (s : wstate) : ccls :=
  match c_pc (con s) with
  | CWait => KW
  | CDeq _ | CEmp _ | CDec _ | CStore => KB
  | CChkL => KChkL
  | CChkU => KChkU
  | CCas => KCas
  | CWr | CRd => KWr
  | CTrig => if pendB (con s) then KB else KW
  end.

Record aview := mkA {
  a_flag : Z; a_E : bool; a_nU : Z; a_nL : Z; a_lenU : Z; a_lenL : Z;
  a_p1U : Z; a_p1L : Z; a_p2 : Z; a_p3 : Z; a_dU : Z; a_dL : Z; a_cls : ccls
}.

Definition zlen {A} (l : list A) : Z := Z.of_nat (List.length l).

Definition view (s : wstate) : aview :=
  mkA (flag (w_sh s)) (eff_edge (w_sh s)) (zlen (itemsU (w_sh s))) (zlen (itemsL (w_sh s)))
      (lenU (w_sh s)) (lenL (w_sh s))
      (n_p1 QU s) (n_p1 QL s) (n_p2 s) (n_p3 s) (d_q QU s) (d_q QL s) (cls_of s).

(* facts about a view that hold in every state, reachable or not *)
Definition WF (v : aview) : Prop :=
  0 <= a_nU v /\ 0 <= a_nL v /\ 0 <= a_p1U v /\ 0 <= a_p1L v /\ 0 <= a_p2 v /\ 0 <= a_p3 v /\
  (a_dU v = 0 \/ a_dU v = 1) /\ (a_dL v = 0 \/ a_dL v = 1) /\
  (a_cls v <> KB -> a_dU v = 0 /\ a_dL v = 0).

Lemma wf_view : forall s, WF (view s).
Proof.
  intro s. unfold WF, view; cbn. splits.
  - unfold zlen; lia.
  - unfold zlen; lia.
  - apply tot_nonneg, nn_p1.
  - apply tot_nonneg, nn_p1.
  - apply tot_nonneg, nn_p2.
  - apply tot_nonneg, nn_p3.
  - unfold d_q. destruct (c_pc (con s)) as [ |[]|[]|[]| | | | | | | ]; auto.
  - unfold d_q. destruct (c_pc (con s)) as [ |[]|[]|[]| | | | | | | ]; auto.
  - unfold d_q, cls_of, KW, KB, KChkL, KChkU, KCas, KWr.
    destruct (c_pc (con s)) as [ |[]|[]|[]| | | | | | | ]; auto; intro H; try lia; destruct (pendB (con s)); lia.
Qed.

Lemma zlen_app1 : forall A (l : list A) x, zlen (l ++ [x]) = zlen l + 1.
Proof. intros. unfold zlen. rewrite app_length. cbn. lia. Qed.

Lemma zlen_cons : forall A (l : list A) x, zlen (x :: l) = zlen l + 1.
Proof. intros. unfold zlen. cbn [List.length]. lia. Qed.

Lemma zlen_nil : forall A, zlen (@nil A) = 0. Proof. reflexivity. Qed.

(* ---- the counts after a thread update ---- *)
Lemma n_p1_set : forall s t x q, n_p1 q (set_trig s t x) = n_p1 q s - w_p1 q (get_trig (trigs s) t) + w_p1 q x.
Proof. intros. unfold n_p1, set_trig; cbn. apply tot_put, z_p1. Qed.
Lemma n_p2_set : forall s t x, n_p2 (set_trig s t x) = n_p2 s - w_p2 (get_trig (trigs s) t) + w_p2 x.
Proof. intros. unfold n_p2, set_trig; cbn. apply tot_put, z_p2. Qed.
Lemma n_p3_set : forall s t x, n_p3 (set_trig s t x) = n_p3 s - w_p3 (get_trig (trigs s) t) + w_p3 x.
Proof. intros. unfold n_p3, set_trig; cbn. apply tot_put, z_p3. Qed.

(* the counts only look at trigs *)
Lemma n_p1_trigs : forall s s' q, trigs s' = trigs s -> n_p1 q s' = n_p1 q s.
Proof. intros s s' q H. unfold n_p1. rewrite H. reflexivity. Qed.
Lemma n_p2_trigs : forall s s', trigs s' = trigs s -> n_p2 s' = n_p2 s.
Proof. intros s s' H. unfold n_p2. rewrite H. reflexivity. Qed.
Lemma n_p3_trigs : forall s s', trigs s' = trigs s -> n_p3 s' = n_p3 s.
Proof. intros s s' H. unfold n_p3. rewrite H. reflexivity. Qed.

Lemma view_ext : forall s s',
  w_sh s' = w_sh s -> trigs s' = trigs s -> d_q QU s' = d_q QU s -> d_q QL s' = d_q QL s ->
  cls_of s' = cls_of s -> view s' = view s.
Proof.
  intros s s' H1 H2 H3 H4 H5. unfold view.
  rewrite H1, H3, H4, H5, (n_p1_trigs s s' QU H2), (n_p1_trigs s s' QL H2), (n_p2_trigs s s' H2), (n_p3_trigs s s' H2).
  reflexivity.
Qed.

(* ---- start_trig: the new call is before its link: weight 0 everywhere ---- *)
Definition pre_link (p : tpc) : Prop := match p with TIdle | TLen | TEnq _ => True | _ => False end.

Lemma w_pre_link : forall th, pre_link (t_pc th) ->
  w_p1 QU th = 0 /\ w_p1 QL th = 0 /\ w_p2 th = 0 /\ w_p3 th = 0.
Proof. intros [p x] H. unfold w_p1, w_p2, w_p3; cbn in *. destruct p as [| |[]|[]| | |]; cbn in H; try contradiction; auto. Qed.

Lemma start_trig_frame : forall s t sp,
  let s' := fst (start_trig s t sp) in
  w_sh s' = w_sh s /\ con s' = con s /\ w_env s' = w_env s /\
  g_ovf (w_gh s') = g_ovf (w_gh s) /\ g_fault (w_gh s') = g_fault (w_gh s) /\
  trigs s' = put_trig (trigs s) t (mkTrig (if sp_high sp then TEnq QU else TLen) (mkTask (g_next (w_gh s)) t sp)).
Proof. intros. unfold s', start_trig. cbn. splits; reflexivity. Qed.

Lemma start_trig_counts : forall s t sp, pre_link (t_pc (get_trig (trigs s) t)) ->
  let s' := fst (start_trig s t sp) in
  n_p1 QU s' = n_p1 QU s /\ n_p1 QL s' = n_p1 QL s /\ n_p2 s' = n_p2 s /\ n_p3 s' = n_p3 s.
Proof.
  intros s t sp Hpre s'.
  destruct (w_pre_link _ Hpre) as (A & B & C & D).
  unfold s', start_trig. cbn [fst].
  rewrite !n_p1_set, n_p2_set, n_p3_set. cbn [set_gh trigs].
  rewrite A, B, C, D. unfold n_p1, n_p2, n_p3. cbn [set_gh trigs].
  unfold w_p1, w_p2, w_p3; cbn [t_pc]. destruct (sp_high sp); lia.
Qed.

(* ---- run_evs / resume / exec_task ---- *)
Definition loop_idle (s : wstate) : Prop := t_pc (get_trig (trigs s) O) = TIdle.

Lemma pre_link_idle : forall s, loop_idle s -> pre_link (t_pc (get_trig (trigs s) O)).
Proof. intros s H. unfold loop_idle in H. rewrite H. exact I. Qed.

(* the loop thread's own Trigger slot is idle unless the loop is inside a re-entrant Trigger;
   doChores is only set while the event batch is being walked *)
Definition chores_ok (c : cons) : Prop := c_chores c = true -> c_pc c = CTrig /\ c_phase c = PhEvents.
Definition loop_ok (s : wstate) : Prop := (c_pc (con s) <> CTrig -> loop_idle s) /\ chores_ok (con s).

Lemma run_evs_frame : forall evs s, loop_idle s ->
  let s' := fst (run_evs evs s) in
  loop_ok s' /\
  w_sh s' = w_sh s /\ w_env s' = w_env s /\
  g_ovf (w_gh s') = g_ovf (w_gh s) /\ g_fault (w_gh s') = g_fault (w_gh s) /\
  n_p1 QU s' = n_p1 QU s /\ n_p1 QL s' = n_p1 QL s /\ n_p2 s' = n_p2 s /\ n_p3 s' = n_p3 s /\
  d_q QU s' = 0 /\ d_q QL s' = 0 /\
  cls_of s' = (if c_chores (con s) || has_efd evs then KB else KW).
Proof.
  induction evs as [|e r IH]; intros s Hidle.
  - cbn [run_evs]. cbn [c_chores c_set_evs]. destruct (c_chores (con s)) eqn:Ech; cbn; splits; try reflexivity.
    + split; [intros _; exact Hidle | unfold chores_ok; cbn; discriminate].
    + split; [intros _; exact Hidle | unfold chores_ok; cbn; rewrite Ech; discriminate].
  - destruct e as [|k sc].
    + cbn [run_evs].
      specialize (IH (set_con s (c_set_chores (con s) true))).
      assert (Hi : loop_idle (set_con s (c_set_chores (con s) true))) by exact Hidle.
      specialize (IH Hi). cbn zeta in IH. cbn [set_con w_sh w_env w_gh con c_set_chores c_chores] in IH.
      destruct IH as (L0 & A & B & C & D & E & F & G & H & I1 & I2 & J).
      cbn zeta. splits; try assumption.
      rewrite J. cbn [has_efd existsb]. rewrite orb_true_r. reflexivity.
    + cbn [run_evs]. destruct (lookup_script (scripts (w_env s)) sc) as [|sp todo] eqn:El.
      * specialize (IH s Hidle). cbn zeta in IH. destruct (run_evs r s) as [s1 o] eqn:Er. cbn [fst] in *.
        cbn zeta. cbn [has_efd existsb]. cbn [has_efd] in IH. exact IH.
      * set (c := c_set_pc (c_set_phase (c_set_todo (c_set_evs (con s) r) todo) PhEvents) CTrig).
        pose proof (start_trig_frame (set_con s c) O sp) as Fr. cbn zeta in Fr.
        assert (Hpre : pre_link (t_pc (get_trig (trigs (set_con s c)) O))) by (apply pre_link_idle; exact Hidle).
        pose proof (start_trig_counts (set_con s c) O sp Hpre) as Cn. cbn zeta in Cn.
        destruct (start_trig (set_con s c) O sp) as [s1 o] eqn:Es. cbn [fst] in *.
        destruct Fr as (A & B & C & D & E & F). destruct Cn as (G & H & I1 & J).
        cbn zeta. cbn [fst]. splits; try assumption.
        -- split; [rewrite B; unfold c; cbn; intro X; congruence | unfold chores_ok; rewrite B; unfold c; cbn; auto].
        -- unfold d_q. rewrite B. reflexivity.
        -- unfold d_q. rewrite B. reflexivity.
        -- unfold cls_of, pendB. rewrite B. cbn. reflexivity.
Qed.

Lemma resume_frame : forall s, loop_idle s -> (c_chores (con s) = true -> c_phase (con s) = PhEvents) ->
  let s' := fst (resume s) in
  loop_ok s' /\
  w_sh s' = w_sh s /\ w_env s' = w_env s /\
  g_ovf (w_gh s') = g_ovf (w_gh s) /\ g_fault (w_gh s') = g_fault (w_gh s) /\
  n_p1 QU s' = n_p1 QU s /\ n_p1 QL s' = n_p1 QL s /\ n_p2 s' = n_p2 s /\ n_p3 s' = n_p3 s /\
  d_q QU s' = 0 /\ d_q QL s' = 0 /\
  cls_of s' = (if pendB (con s) then KB else KW).
Proof.
  intros s Hidle Hch. unfold resume.
  assert (Hch' : c_phase (con s) <> PhEvents -> c_chores (con s) = false).
  { intro N. destruct (c_chores (con s)); [exfalso; apply N; apply Hch; reflexivity|reflexivity]. }
  destruct (c_todo (con s)) as [|sp todo] eqn:Et.
  - destruct (c_phase (con s)) eqn:Eph.
    + pose proof (run_evs_frame (c_evs (con s)) s Hidle) as R. cbn zeta in R.
      cbn zeta. unfold pendB. rewrite Eph. exact R.
    + cbn. splits; try reflexivity.
      * split; [intros _; exact Hidle | unfold chores_ok; cbn; rewrite Hch' by discriminate; discriminate].
      * unfold pendB. rewrite Eph. reflexivity.
    + unfold pendB. rewrite Eph. destruct (c_low (con s) <? e_max (w_env s)); cbn; splits; try reflexivity;
        (split; [intros _; exact Hidle | unfold chores_ok; cbn; rewrite Hch' by discriminate; discriminate]).
  - set (c := c_set_pc (c_set_todo (con s) todo) CTrig).
    pose proof (start_trig_frame (set_con s c) O sp) as Fr. cbn zeta in Fr.
    assert (Hpre : pre_link (t_pc (get_trig (trigs (set_con s c)) O))) by (apply pre_link_idle; exact Hidle).
    pose proof (start_trig_counts (set_con s c) O sp Hpre) as Cn. cbn zeta in Cn.
    destruct (start_trig (set_con s c) O sp) as [s1 o] eqn:Es. cbn [fst] in *.
    destruct Fr as (A & B & C & D & E & F). destruct Cn as (G & H & I1 & J).
    cbn zeta. cbn [fst]. splits; try assumption.
    + split; [rewrite B; unfold c; cbn; intro X; congruence
             | unfold chores_ok; rewrite B; unfold c; cbn; intro X; split; [reflexivity|apply Hch; exact X]].
    + unfold d_q. rewrite B. reflexivity.
    + unfold d_q. rewrite B. reflexivity.
    + unfold cls_of. rewrite B. cbn. reflexivity.
Qed.

Lemma exec_task_frame : forall s q x, loop_idle s -> c_chores (con s) = false ->
  let s' := fst (exec_task s q x) in
  loop_ok s' /\
  w_sh s' = w_sh s /\
  g_ovf (w_gh s') = g_ovf (w_gh s) /\ g_fault (w_gh s') = g_fault (w_gh s) /\
  n_p1 QU s' = n_p1 QU s /\ n_p1 QL s' = n_p1 QL s /\ n_p2 s' = n_p2 s /\ n_p3 s' = n_p3 s /\
  d_q QU s' = 0 /\ d_q QL s' = 0 /\ cls_of s' = KB.
Proof.
  intros s q x Hidle Hch. unfold exec_task.
  assert (Gen : forall e1 trs (o1 : wobs),
    let s1 := set_gh (set_env s e1) (gh_exec (w_gh s) q x (if sp_cb (tk_spec x) then [tk_id x] else []) trs) in
    let c0 := c_set_todo (con s1) (lookup_script (scripts e1) (sp_script (tk_spec x))) in
    let c := match q with QU => c_set_phase c0 PhUrgent | QL => c_set_low (c_set_phase c0 PhLow) (c_low c0 + 1) end in
    let s' := fst (let '(s2, o2) := resume (set_con s1 c) in
                   (s2, EvExec (tk_id x) :: o1 ++ (if sp_cb (tk_spec x) then [EvCb (tk_id x)] else []) ++ o2)) in
    loop_ok s' /\
    w_sh s' = w_sh s /\
    g_ovf (w_gh s') = g_ovf (w_gh s) /\ g_fault (w_gh s') = g_fault (w_gh s) /\
    n_p1 QU s' = n_p1 QU s /\ n_p1 QL s' = n_p1 QL s /\ n_p2 s' = n_p2 s /\ n_p3 s' = n_p3 s /\
    d_q QU s' = 0 /\ d_q QL s' = 0 /\ cls_of s' = KB).
  { intros e1 trs o1 s1 c0 c s'.
    assert (Hi : loop_idle (set_con s1 c)) by exact Hidle.
    assert (Hc2 : c_chores (con (set_con s1 c)) = true -> c_phase (con (set_con s1 c)) = PhEvents).
    { unfold c, c0, s1. destruct q; cbn; rewrite Hch; discriminate. }
    pose proof (resume_frame (set_con s1 c) Hi Hc2) as R. cbn zeta in R.
    unfold s'. destruct (resume (set_con s1 c)) as [s2 o2] eqn:Er. cbn [fst] in *.
    destruct R as (L0 & A & B & C & D & E & F & G & H & I1 & I2 & J).
    splits; try assumption.
    rewrite J. unfold pendB, c. destruct q; reflexivity. }
  destruct (sp_kind (tk_spec x)) as [|c|c].
  - apply Gen.
  - destruct (zmem c (closed (w_env s))); apply Gen.
  - apply Gen.
Qed.

(* ---- the two "outside the property" flags are only raised by add_len / a faulty write ---- *)
Lemma gh_link_ovf : forall g q x, g_ovf (gh_link g q x) = g_ovf g. Proof. intros g [] x; reflexivity. Qed.
Lemma gh_link_fault : forall g q x, g_fault (gh_link g q x) = g_fault g. Proof. intros g [] x; reflexivity. Qed.
Lemma gh_ret_ovf : forall g i b, g_ovf (gh_ret g i b) = g_ovf g. Proof. reflexivity. Qed.
Lemma gh_ret_fault : forall g i b, g_fault (gh_ret g i b) = g_fault g. Proof. reflexivity. Qed.
Lemma gh_begin_ovf : forall g x, g_ovf (gh_begin g x) = g_ovf g. Proof. reflexivity. Qed.
Lemma gh_begin_fault : forall g x, g_fault (gh_begin g x) = g_fault g. Proof. reflexivity. Qed.
Lemma gh_exec_ovf : forall g q x a b, g_ovf (gh_exec g q x a b) = g_ovf g. Proof. reflexivity. Qed.
Lemma gh_exec_fault : forall g q x a b, g_fault (gh_exec g q x a b) = g_fault g. Proof. reflexivity. Qed.

Ltac sane_simpl H :=
  unfold ret_trig in H;
  cbn [set_trig set_trigs set_gh set_sh set_con set_env set_cpc w_gh] in H;
  rewrite ?gh_link_ovf, ?gh_link_fault, ?gh_ret_ovf, ?gh_ret_fault, ?gh_begin_ovf, ?gh_begin_fault,
          ?gh_exec_ovf, ?gh_exec_fault in H.
