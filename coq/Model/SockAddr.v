(* Model of pkg/socket/sockaddr.go (net.Addr <-> unix.Sockaddr conversion, IPv6
   zone <-> interface index, itod/dtoi) and of the listen/connect-side
   conversion in pkg/socket/sock_posix.go + tcp_socket.go/udp_socket.go
   (determine*Proto, ipToSockaddr).  net.IP.To4/To16/Equal are transcribed
   from package net.  The OS interface table is data (list of (name, index) in
   the order the OS reports it).  No proofs here. *)
From GV Require Export Lib.Trace.
Open Scope Z_scope.

Definition bytes := list Z.

(* ---- list helpers with Z indices ---- *)
Definition zlen (l : bytes) : Z := Z.of_nat (List.length l).
Definition ztake (n : Z) (l : bytes) : bytes := firstn (Z.to_nat n) l.
Definition zdrop (n : Z) (l : bytes) : bytes := skipn (Z.to_nat n) l.
Definition znth (l : bytes) (i : Z) : Z := nth (Z.to_nat i) l 0.
Fixpoint set_nth (l : bytes) (i : nat) (v : Z) : bytes :=
  match l, i with
  | [], _ => []
  | _ :: t, O => v :: t
  | h :: t, S i' => h :: set_nth t i' v
  end.
Definition zset (l : bytes) (i v : Z) : bytes := set_nth l (Z.to_nat i) v.

Fixpoint bytes_eqb (a b : bytes) : bool :=
  match a, b with
  | [], [] => true
  | x :: a', y :: b' => (x =? y) && bytes_eqb a' b'
  | _, _ => false
  end.
Definition is_empty (l : bytes) : bool := match l with [] => true | _ => false end.

Definition wrapu8 (z : Z) : Z := z mod 256.
Definition wrapu32 (z : Z) : Z := z mod 4294967296.

(* a fixed-size zeroed Go array after  copy(arr[:], src)  *)
Definition copy_arr (n : nat) (src : bytes) : bytes := firstn n (src ++ repeat 0 n).

(* ---- package net: IP.To4 / IP.To16 / IP.Equal ---- *)
Definition v4_prefix : bytes := [0;0;0;0;0;0;0;0;0;0;255;255].   (* v4InV6Prefix *)
Definition all_zero (l : bytes) : bool := forallb (fun b => b =? 0) l.

Definition to4 (ip : bytes) : option bytes :=
  if zlen ip =? 4 then Some ip
  else if (zlen ip =? 16) && all_zero (ztake 10 ip) && (znth ip 10 =? 255) && (znth ip 11 =? 255)
       then Some (zdrop 12 ip)
       else None.

Definition to16 (ip : bytes) : option bytes :=
  if zlen ip =? 4 then Some (v4_prefix ++ ip)          (* IPv4(ip[0], ip[1], ip[2], ip[3]) *)
  else if zlen ip =? 16 then Some ip
  else None.

Definition ip_equal (ip x : bytes) : bool :=
  if zlen ip =? zlen x then bytes_eqb ip x
  else if (zlen ip =? 4) && (zlen x =? 16) then bytes_eqb (ztake 12 x) v4_prefix && bytes_eqb ip (zdrop 12 x)
  else if (zlen ip =? 16) && (zlen x =? 4) then bytes_eqb (ztake 12 ip) v4_prefix && bytes_eqb (zdrop 12 ip) x
  else false.

Definition ipv4zero : bytes := v4_prefix ++ [0;0;0;0].            (* net.IPv4zero = IPv4(0,0,0,0) *)
Definition ipv6zero : bytes := repeat 0 16.                        (* net.IPv6zero *)

(* ---- the OS interface table (net.InterfaceByName / net.InterfaceByIndex) ---- *)
Definition iface := (bytes * Z)%type.                (* (Name, Index) *)

Fixpoint by_name (tbl : list iface) (name : bytes) : option Z :=
  match tbl with
  | [] => None
  | (n, i) :: t => if bytes_eqb n name then Some i else by_name t name
  end.
Fixpoint by_index (tbl : list iface) (idx : Z) : option bytes :=
  match tbl with
  | [] => None
  | (n, i) :: t => if i =? idx then Some n else by_index t idx
  end.
(* net.InterfaceByName rejects "", net.InterfaceByIndex rejects index <= 0 *)
Definition interface_by_name (tbl : list iface) (name : bytes) : option Z :=
  if is_empty name then None else by_name tbl name.
Definition interface_by_index (tbl : list iface) (idx : Z) : option bytes :=
  if idx <=? 0 then None else by_index tbl idx.

(* the assumption on the OS table: a finite partial bijection between non-empty
   names and positive uint32 indices (used only as a hypothesis of theorems) *)
Definition valid_tbl (tbl : list iface) : Prop :=
  NoDup (map fst tbl) /\ NoDup (map snd tbl) /\
  Forall (fun e : iface => fst e <> [] /\ 0 < snd e < 4294967296) tbl.

(* ---- sockaddr.go: dtoi ---- *)
Definition big : Z := 16777215.  (* 0xFFFFFF *)

(* the for loop of dtoi on the not yet consumed suffix s[i:];
   result (n, i, ok); (0, i, false) is the early return on n >= big *)
Fixpoint dtoi_loop (rest : bytes) (n i : Z) : Z * Z * bool :=
  match rest with
  | [] => (n, i, true)
  | c :: rest' =>
      if (48 <=? c) && (c <=? 57) then
        let n := n * 10 + (c - 48) in
        if n >=? big then (0, i, false) else dtoi_loop rest' n (i + 1)
      else (n, i, true)
  end.

(* dtoi(s, i0) for 0 <= i0 (gnet only calls it with i0 = 0) *)
Definition dtoi (s : bytes) (i0 : Z) : Z * Z * bool :=
  match dtoi_loop (zdrop i0 s) 0 i0 with
  | (n, i, true) => if i =? i0 then (0, i, false) else (n, i, true)
  | r => r
  end.

(* ---- sockaddr.go: itod ----
   buf is the 32-byte slice bsPool.Get(32) returned (contents arbitrary);
   the loop writes digits from buf[len-1] downwards, the result is buf[i+1:].
   Every  buf[i] = …  with i outside [0,len) is a Go panic; with fuel
   S (length buf) the fuel can only run out on an iteration that panics anyway. *)
Fixpoint itod_loop (fuel : nat) (buf : bytes) (i v : Z) : outcome (bytes * Z) :=
  if v >? 0 then
    match fuel with
    | O => Panic
    | S fuel' =>
        if (i <? 0) || (zlen buf <=? i) then Panic
        else itod_loop fuel' (zset buf i (wrapu8 (v mod 10 + 48))) (i - 1) (v / 10)
    end
  else Ret (buf, i).

Definition itod_buf (buf : bytes) (v : Z) : outcome bytes :=
  if v =? 0 then Ret [48]
  else obind (itod_loop (S (List.length buf)) buf (zlen buf - 1) v)
             (fun r => Ret (zdrop (snd r + 1) (fst r))).

Definition pool32 : bytes := repeat 0 32.
Definition itod (v : Z) : outcome bytes := itod_buf pool32 v.

(* Ownership of that buffer.  The string itod returns is bs.BytesToString(buf[i+1:]):
   it SHARES the memory of the pooled buffer (no copy).  The model's itod returns a
   value, which is only faithful if nobody else can write that memory afterwards,
   i.e. if the buffer is never handed back to the pool by sockaddr.go.  The uses of
   the byte-slice pool in pkg/socket/sockaddr.go are therefore part of the model:
   (enclosing function, pool function, argument text, inside a defer?) — exactly one
   Get and no Put.  The translator harness/cmd/gensockpool regenerates this list from
   the current source on every run and Coq checks that it is this one. *)
Definition pool_sites : list (string * string * string * bool) :=
  [("itod"%string, "Get"%string, "32"%string, false)].

(* ---- sockaddr.go: ip6ZoneToInt / ip6ZoneToString ---- *)
Definition zone_to_int (tbl : list iface) (zone : bytes) : Z :=
  if is_empty zone then 0
  else match interface_by_name tbl zone with
       | Some idx => idx
       | None => fst (fst (dtoi zone 0))
       end.

(* zone : uint32 *)
Definition zone_to_string (tbl : list iface) (zone : Z) : outcome bytes :=
  if zone =? 0 then Ret []
  else match interface_by_index tbl zone with
       | Some name => Ret name
       | None => itod zone
       end.

(* ---- unix.Sockaddr and net.Addr values ---- *)
Inductive sockaddr :=
| SA4 (port : Z) (addr : bytes)                 (* ptr to unix.SockaddrInet4{Port, Addr [4]byte} *)
| SA6 (port : Z) (zone : Z) (addr : bytes)      (* ptr to unix.SockaddrInet6{Port, ZoneId uint32, Addr [16]byte} *)
| SAUnix (name : bytes)                         (* ptr to unix.SockaddrUnix{Name} *)
| SAOther.                                      (* any other implementation of unix.Sockaddr *)

Inductive netaddr :=
| NIP (ip : option bytes) (zone : bytes)                 (* ptr to net.IPAddr ; ip = None is a nil net.IP *)
| NTCP (ip : option bytes) (port : Z) (zone : bytes)     (* ptr to net.TCPAddr *)
| NUDP (ip : option bytes) (port : Z) (zone : bytes)     (* ptr to net.UDPAddr *)
| NUnix (name : bytes) (net : bytes)                     (* ptr to net.UnixAddr *)
| NOther                                                 (* any other net.Addr implementation *)
| NNilPtr.                                               (* a typed nil pointer, e.g. a nil TCPAddr pointer inside the interface *)
(* a nil interface value is  None : option netaddr *)

(* IPToSockaddr *)
Definition ip_to_sockaddr (tbl : list iface) (ip : option bytes) (port : Z) (zone : bytes) : option sockaddr :=
  match ip with
  | None =>
      if negb (is_empty zone) then Some (SA6 port (wrapu32 (zone_to_int tbl zone)) (repeat 0 16))
      else Some (SA4 port (repeat 0 4))
  | Some ip =>
      match (match to4 ip with Some ip4 => if is_empty zone then Some ip4 else None | None => None end) with
      | Some ip4 => Some (SA4 port (copy_arr 4 ip4))
      | None =>
          match to16 ip with
          | Some ip6 => Some (SA6 port (wrapu32 (zone_to_int tbl zone)) (copy_arr 16 ip6))
          | None => None
          end
      end
  end.

Definition SOCK_STREAM := 1.
Definition SOCK_DGRAM := 2.
Definition SOCK_SEQPACKET := 5.
Definition net_unix : bytes := [117;110;105;120].                               (* "unix" *)
Definition net_unixgram : bytes := [117;110;105;120;103;114;97;109].           (* "unixgram" *)
Definition net_unixpacket : bytes := [117;110;105;120;112;97;99;107;101;116].  (* "unixpacket" *)

(* UnixAddrToSockaddr *)
Definition unix_addr_to_sockaddr (name net : bytes) : option sockaddr * Z :=
  if bytes_eqb net net_unix then (Some (SAUnix name), SOCK_STREAM)
  else if bytes_eqb net net_unixgram then (Some (SAUnix name), SOCK_DGRAM)
  else if bytes_eqb net net_unixpacket then (Some (SAUnix name), SOCK_SEQPACKET)
  else (None, 0).

(* NetAddrToSockaddr; a typed nil pointer is dereferenced: Go panics *)
Definition net_addr_to_sockaddr (tbl : list iface) (a : option netaddr) : outcome (option sockaddr) :=
  match a with
  | None => Ret None
  | Some (NIP ip zone) => Ret (ip_to_sockaddr tbl ip 0 zone)
  | Some (NTCP ip port zone) => Ret (ip_to_sockaddr tbl ip port zone)
  | Some (NUDP ip port zone) => Ret (ip_to_sockaddr tbl ip port zone)
  | Some (NUnix name net) => Ret (fst (unix_addr_to_sockaddr name net))
  | Some NOther => Ret None
  | Some NNilPtr => Panic
  end.

(* SockaddrToTCPOrUnixAddr ; None = nil sockaddr / nil result *)
Definition sockaddr_to_tcp_or_unix (tbl : list iface) (sa : option sockaddr) : outcome (option netaddr) :=
  match sa with
  | Some (SA4 port addr) => Ret (Some (NTCP (Some addr) port []))
  | Some (SA6 port zone addr) => obind (zone_to_string tbl zone) (fun z => Ret (Some (NTCP (Some addr) port z)))
  | Some (SAUnix name) => Ret (Some (NUnix name net_unix))
  | _ => Ret None
  end.

(* SockaddrToUDPAddr *)
Definition sockaddr_to_udp (tbl : list iface) (sa : option sockaddr) : outcome (option netaddr) :=
  match sa with
  | Some (SA4 port addr) => Ret (Some (NUDP (Some addr) port []))
  | Some (SA6 port zone addr) => obind (zone_to_string tbl zone) (fun z => Ret (Some (NUDP (Some addr) port z)))
  | _ => Ret None
  end.

(* vocabulary for statements that hold alike for *net.TCPAddr and *net.UDPAddr:
   mk_na builds the address, back is the matching converse conversion
   (SockaddrToTCPOrUnixAddr for TCP, SockaddrToUDPAddr for UDP) *)
Inductive ipkind := KTCP | KUDP.

Definition mk_na (k : ipkind) (ip : option bytes) (port : Z) (zone : bytes) : netaddr :=
  match k with KTCP => NTCP ip port zone | KUDP => NUDP ip port zone end.

Definition back (k : ipkind) (tbl : list iface) (sa : option sockaddr) : outcome (option netaddr) :=
  match k with KTCP => sockaddr_to_tcp_or_unix tbl sa | KUDP => sockaddr_to_udp tbl sa end.

(* ---- sock_posix.go + tcp_socket.go / udp_socket.go: the sockaddr that is
   bound / connected for a resolved address ---- *)
Definition AF_INET := 2.
Definition AF_INET6 := 10.

Definition ip_to_sockaddr_inet4 (ip : bytes) (port : Z) : option sockaddr :=
  let ip := if zlen ip =? 0 then ipv4zero else ip in
  match to4 ip with
  | None => None
  | Some ip4 => Some (SA4 port (copy_arr 4 ip4))
  end.

Definition ip_to_sockaddr_inet6 (tbl : list iface) (ip : bytes) (port : Z) (zone : bytes) : option sockaddr :=
  let ip := if (zlen ip =? 0) || ip_equal ip ipv4zero then ipv6zero else ip in
  match to16 ip with
  | None => None
  | Some ip6 =>
      match interface_by_name tbl zone with
      | None => Some (SA6 port 0 (copy_arr 16 ip6))
      | Some idx => Some (SA6 port (wrapu32 idx) (copy_arr 16 ip6))
      end
  end.

(* proto: 0 = "tcp"/"udp", 4 = "tcp4"/"udp4", 6 = "tcp6"/"udp6" (what
   determineTCPProto/determineUDPProto fall back to when the IP is empty);
   result: (family, sockaddr, ipv6only); None = an error is returned.
   ip = [] stands for a nil/empty resolved IP (wildcard). *)
Definition listen_sockaddr (tbl : list iface) (proto : Z) (ip : bytes) (port : Z) (zone : bytes)
  : option (Z * sockaddr * bool) :=
  let version := match to4 ip with
                 | Some _ => 4
                 | None => match to16 ip with Some _ => 6 | None => proto end
                 end in
  if version =? 4 then
    match ip_to_sockaddr_inet4 ip port with Some sa => Some (AF_INET, sa, false) | None => None end
  else
    match ip_to_sockaddr_inet6 tbl ip port zone with
    | Some sa => Some (AF_INET6, sa, version =? 6)
    | None => None
    end.

(* ---- trace runner: family "sockaddr" ----
   op lines (the interface table of the machine is an input):
     if <xname> <index>                                 (no obs) append an interface
     to4 <xip> | to16 <xip>                             -> obs ip nil|<x>
     ipeq <xa> <xb>                                     -> obs b 0|1
     itod <v>                                           -> obs s <x> | obs s panic
     dtoi <xs> <i0>                                     -> obs d <n> <i> <ok>
     z2i <xzone>                                        -> obs zi <n>
     i2z <zone>                                         -> obs zs <x>
     ip2sa <nil|xip> <port> <xzone>                     -> obs sa <sockaddr>
     na2sa ip|tcp|udp <nil|xip> <port> <xzone>          -> obs sa <sockaddr> | obs sa panic
     na2sa unix <xname> <xnet> | na2sa other | na2sa niliface | na2sa nilptr
     ua2sa <xname> <xnet>                               -> obs ua <sockaddr> <type>
     sa2tcp <sockaddr> | sa2udp <sockaddr>              -> obs na <netaddr>
     rt ip|tcp|udp|unix … (arguments of na2sa)          -> obs sa <sockaddr> ; obs na <netaddr>   (there and back)
     rts tcp|udp <sockaddr>                             -> obs na <netaddr> ; obs sa <sockaddr>   (back and there)
     lsa <proto 0|4|6> <xip> <port> <xzone>             -> obs lsa <family> <v6only> <sockaddr> | obs lsa err
     int <scenario>                                     (no obs) live-server scenario, judged by the driver's oracle
     keep tcp|udp <sockaddr>                            -> obs na <netaddr>      converted address kept alive by the driver
     keepz <zone>                                       -> obs zs <x>            zone string kept alive
     churn <n>                                          (no obs) pool / buffer activity by other users
     recheck <i>                                        -> the obs of the i-th keep/keepz, read again
     netns <tag>                                        (no obs) marks a case run inside a private network namespace
   <sockaddr> ::= nil | sa4 <port> <xaddr> | sa6 <port> <zone> <xaddr> | unix <xname> | other
   <netaddr>  ::= nil | tcp <xip> <port> <xzone> | udp … | unix <xname> <xnet> *)
Open Scope string_scope.

Definition ip_arg (o : option bytes) : arg := match o with None => ASym "nil" | Some b => ABytes b end.

Definition sa_args (o : option sockaddr) : list arg :=
  match o with
  | None => [ASym "nil"]
  | Some (SA4 p a) => [ASym "sa4"; AInt p; ABytes a]
  | Some (SA6 p z a) => [ASym "sa6"; AInt p; AInt z; ABytes a]
  | Some (SAUnix n) => [ASym "unix"; ABytes n]
  | Some SAOther => [ASym "other"]
  end.

Definition na_args (o : option netaddr) : list arg :=
  match o with
  | None => [ASym "nil"]
  | Some (NIP ip z) => [ASym "ip"; ip_arg ip; AInt 0; ABytes z]
  | Some (NTCP ip p z) => [ASym "tcp"; ip_arg ip; AInt p; ABytes z]
  | Some (NUDP ip p z) => [ASym "udp"; ip_arg ip; AInt p; ABytes z]
  | Some (NUnix n net) => [ASym "unix"; ABytes n; ABytes net]
  | Some NOther => [ASym "other"]
  | Some NNilPtr => [ASym "nilptr"]
  end.

Definition parse_ip (a : arg) : option (option bytes) :=
  match a with
  | ABytes b => Some (Some b)
  | ASym s => if sym_eqb s "nil" then Some None else None
  | _ => None
  end.

(* Some (Some sa) | Some None (nil) | None (malformed) *)
Definition parse_sa (args : list arg) : option (option sockaddr) :=
  match args with
  | [ASym k] => if sym_eqb k "nil" then Some None else if sym_eqb k "other" then Some (Some SAOther) else None
  | [ASym k; ABytes n] => if sym_eqb k "unix" then Some (Some (SAUnix n)) else None
  | [ASym k; AInt p; ABytes a] => if sym_eqb k "sa4" then Some (Some (SA4 p a)) else None
  | [ASym k; AInt p; AInt z; ABytes a] => if sym_eqb k "sa6" then Some (Some (SA6 p z a)) else None
  | _ => None
  end.

Definition parse_na (args : list arg) : option (option netaddr) :=
  match args with
  | [ASym k] =>
      if sym_eqb k "niliface" then Some None
      else if sym_eqb k "other" then Some (Some NOther)
      else if sym_eqb k "nilptr" then Some (Some NNilPtr) else None
  | [ASym k; ABytes n; ABytes net] => if sym_eqb k "unix" then Some (Some (NUnix n net)) else None
  | [ASym k; ipa; AInt p; ABytes z] =>
      match parse_ip ipa with
      | None => None
      | Some ip =>
          if sym_eqb k "ip" then Some (Some (NIP ip z))
          else if sym_eqb k "tcp" then Some (Some (NTCP ip p z))
          else if sym_eqb k "udp" then Some (Some (NUDP ip p z))
          else None
      end
  | _ => None
  end.

Definition unknown : list line := [obs "unknown" []].

Definition out_na (o : outcome (option netaddr)) : list line :=
  match o with Ret r => [obs "na" (na_args r)] | Panic => [panic_line "na"] end.

Definition sockaddr_line (tbl : list iface) (l : line) : list line :=
  match l with
  | ("to4", [ABytes ip]) => [obs "ip" [ip_arg (to4 ip)]]
  | ("to16", [ABytes ip]) => [obs "ip" [ip_arg (to16 ip)]]
  | ("ipeq", [ABytes a; ABytes b]) => [obs "b" [bool_arg (ip_equal a b)]]
  | ("itod", [AInt v]) => match itod v with Ret s => [obs "s" [ABytes s]] | Panic => [panic_line "s"] end
  | ("dtoi", [ABytes s; AInt i0]) =>
      match dtoi s i0 with (n, i, ok) => [obs "d" [AInt n; AInt i; bool_arg ok]] end
  | ("z2i", [ABytes z]) => [obs "zi" [AInt (zone_to_int tbl z)]]
  | ("i2z", [AInt z]) => match zone_to_string tbl z with Ret s => [obs "zs" [ABytes s]] | Panic => [panic_line "zs"] end
  | ("ip2sa", [ipa; AInt p; ABytes z]) =>
      match parse_ip ipa with
      | Some ip => [obs "sa" (sa_args (ip_to_sockaddr tbl ip p z))]
      | None => unknown
      end
  | ("na2sa", args) =>
      match parse_na args with
      | Some a => match net_addr_to_sockaddr tbl a with
                  | Ret r => [obs "sa" (sa_args r)]
                  | Panic => [panic_line "sa"]
                  end
      | None => unknown
      end
  | ("ua2sa", [ABytes n; ABytes net]) =>
      let r := unix_addr_to_sockaddr n net in [obs "ua" (sa_args (fst r) ++ [AInt (snd r)])%list]
  | ("sa2tcp", args) =>
      match parse_sa args with Some sa => out_na (sockaddr_to_tcp_or_unix tbl sa) | None => unknown end
  | ("sa2udp", args) =>
      match parse_sa args with Some sa => out_na (sockaddr_to_udp tbl sa) | None => unknown end
  | ("rt", ASym k :: rest) =>
      match parse_na (ASym k :: rest) with
      | Some a =>
          match net_addr_to_sockaddr tbl a with
          | Ret sa => obs "sa" (sa_args sa)
                      :: out_na (if sym_eqb k "udp" then sockaddr_to_udp tbl sa else sockaddr_to_tcp_or_unix tbl sa)
          | Panic => [panic_line "sa"]
          end
      | None => unknown
      end
  | ("rts", ASym k :: rest) =>
      match parse_sa rest with
      | Some sa =>
          match (if sym_eqb k "udp" then sockaddr_to_udp tbl sa else sockaddr_to_tcp_or_unix tbl sa) with
          | Ret na => [obs "na" (na_args na);
                       match net_addr_to_sockaddr tbl na with
                       | Ret r => obs "sa" (sa_args r)
                       | Panic => panic_line "sa"
                       end]
          | Panic => [panic_line "na"]
          end
      | None => unknown
      end
  | ("int", _) => []     (* live-server scenario of the driver: oracle only, nothing to predict *)
  | ("netns", _) => []
  | ("lsa", [AInt proto; ABytes ip; AInt p; ABytes z]) =>
      match listen_sockaddr tbl proto ip p z with
      | Some (fam, sa, v6only) => [obs "lsa" ([AInt fam; bool_arg v6only] ++ sa_args (Some sa))%list]
      | None => [obs "lsa" [ASym "err"]]
      end
  | _ => unknown
  end.

(* per-case state: interface table, the addresses / zone strings the driver keeps
   alive (`keep`, `keepz`), observations in reverse order *)
Record sa_state := { sa_tbl : list iface; sa_kept : list (list line); sa_obs : list line }.

Definition sa_emit (st : sa_state) (ls : list line) : sa_state :=
  {| sa_tbl := sa_tbl st; sa_kept := sa_kept st; sa_obs := rev_append ls (sa_obs st) |}.

Definition sa_keep (st : sa_state) (ls : list line) : sa_state :=
  {| sa_tbl := sa_tbl st; sa_kept := (sa_kept st ++ [ls])%list; sa_obs := rev_append ls (sa_obs st) |}.

Definition keep_lines (tbl : list iface) (args : list arg) : option (list line) :=
  match args with
  | ASym k :: rest =>
      match parse_sa rest with
      | Some sa => Some (out_na (if sym_eqb k "udp" then sockaddr_to_udp tbl sa else sockaddr_to_tcp_or_unix tbl sa))
      | None => None
      end
  | _ => None
  end.

Definition keepz_lines (tbl : list iface) (args : list arg) : option (list line) :=
  match args with
  | [AInt z] => Some (match zone_to_string tbl z with
                      | Ret s => [obs "zs" [ABytes s]]
                      | Panic => [panic_line "zs"]
                      end)
  | _ => None
  end.

Definition sockaddr_step (st : sa_state) (l : line) : sa_state :=
  let name := fst l in
  let args := snd l in
  if sym_eqb name "if" then
    match args with
    | [ABytes n; AInt i] => {| sa_tbl := (sa_tbl st ++ [(n, i)])%list; sa_kept := sa_kept st; sa_obs := sa_obs st |}
    | _ => sa_emit st unknown
    end
  (* ifrename <index> <new name>: the interface with that index is renamed (the table changes under the
     running process: a conversion made afterwards sees the new name) *)
  else if sym_eqb name "ifrename" then
    match args with
    | [AInt i; ABytes n] =>
        {| sa_tbl := map (fun e : iface => if Z.eqb (snd e) i then (n, i) else e) (sa_tbl st);
           sa_kept := sa_kept st; sa_obs := sa_obs st |}
    | _ => sa_emit st unknown
    end
  (* keep tcp|udp <sockaddr>: convert and keep the result alive; the value is observed now … *)
  else if sym_eqb name "keep" then
    match keep_lines (sa_tbl st) args with Some ls => sa_keep st ls | None => sa_emit st unknown end
  else if sym_eqb name "keepz" then
    match keepz_lines (sa_tbl st) args with Some ls => sa_keep st ls | None => sa_emit st unknown end
  (* … churn <n>: other users of the byte-slice pool, linked-list buffers, further
     conversions: nothing that may change a value handed out earlier … *)
  else if sym_eqb name "churn" then st
  (* … recheck <i>: the i-th kept value is read again and must be what it was *)
  else if sym_eqb name "recheck" then
    match args with
    | [AInt i] => sa_emit st (if (i <? 0)%Z then unknown else nth (Z.to_nat i) (sa_kept st) unknown)
    | _ => sa_emit st unknown
    end
  else sa_emit st (sockaddr_line (sa_tbl st) l).

(* observations are accumulated in reverse order *)
Definition run_sockaddr : runner :=
  fun ls => rev (sa_obs (fold_left sockaddr_step ls {| sa_tbl := []; sa_kept := []; sa_obs := [] |})).
