(* Executable transition-system model of the gnet engine life cycle
   (gnet.go: Engine.Validate/CountConnections/Register/Dup/DupListener/Stop, Run,
   package Stop; engine_unix.go: run/start/stop/closeEventLoops/shutdown;
   reactor_default.go: rotate/orbit/run; eventloop_unix.go: Register/Enroll/Execute/
   enroll/register/ticker/closeConns; client_unix.go: Start/Stop/EnrollContext) at the
   granularity of the synchronisation operations: the cancel of rootCtx (turnOff),
   the inShutdown flag, Trigger (enqueue on a loop's task queue), errgroup.Wait,
   closing the pollers, allEngines.Store/Load/Delete, the connOpened channel of
   a registration, and the callbacks.

   Threads: the Run caller (TR; for a client: Client.Start / Client.Stop), the event
   loops (TL i), the main reactor / acceptor (TA), the ticker (TT), user goroutines
   issuing control calls (TU g), and worker-pool goroutines of Register/Enroll (TW k).

   A loop is abstracted from Model/Loop.v: a set of open connections plus a task
   queue.  The kernel, the peers and the event handler are the environment: which
   I/O event happens, what a callback returns, whether a write inside a callback
   fails, whether a dial succeeds, are all part of the `choice` of a step.  The task
   queue is a bag (a step may run any queued task): this covers both priority queues
   of the poller and every order in which Polling drains them; the assumed wake-up
   guarantee of C03 is that a polling loop with a queued task is enabled.

   e_hist is the history of events (newest first); every step appends the events it
   returns.  No proofs in this file. *)
From GV Require Export Lib.Trace.
From GV Require Import Lib.Interleave.
Open Scope string_scope.
Open Scope list_scope.
Open Scope Z_scope.

(* ------------------------------------------------------------------ *)
(* vocabulary *)

Inductive act := ANone | AClose | AShut.

Definition act_shut (a : act) : bool := match a with AShut => true | _ => false end.

(* what the handler does in OnOpen / OnTraffic of one connection: the returned action,
   whether a Write/Writev inside the callback failed (conn.write -> deferred el.close,
   whose result cannot be returned to the loop: a Shutdown asked for by OnClose is
   passed to engine.shutdown instead), and what OnClose returns if the connection is
   closed as a consequence *)
Record hres := mkH { h_act : act; h_wfail : bool; h_cact : act }.

Definition h_none : hres := mkH ANone false ANone.

Inductive tid := TR | TL (i : nat) | TA | TT | TU (g : nat) | TW (k : nat).

Inductive owner := ONone | OWorker (k : nat) | OUser (g : nat).

Inductive task :=
| TShut                               (* func(_ any) error { return ErrEngineShutdown } *)
| TReg (cid : Z) (o : owner)          (* el.register; o waits on connOpened *)
| TExec (n : Z).                      (* EventLoop.Execute runnable *)

Inductive lpc := LIdle | LPoll | LClosing | LTurnOff | LExited.

Record loop := mkLoop {
  l_pc : lpc;
  l_conns : list Z;       (* registered, opened connections *)
  l_q : list task;        (* both task queues *)
  l_pclosed : bool;       (* poller.Close() done *)
}.

Inductive rpc :=
| R0                       (* Run / Client.Start not called *)
| RBooted (a : act)        (* OnBoot returned a *)
| RStarted                 (* eng.start returned nil *)
| RServing                 (* server: in stop(), blocked on <-ctx.Done(); client: Start returned *)
| RCancelled               (* client: Client.Stop has called shutdown *)
| RNotify (k : nat)        (* OnShutdown returned; next: Trigger(exit task) to loop k *)
| RWait                    (* concurrency.Wait() *)
| RClosePollers
| RStoreInsd
| RReturn
| RReturned.

Inductive tpc := TIdle | TRun | TExited.

Inductive result :=
| RNil | REmpty | RInShutdown | RCtxErr | RInvalidAddr | RInvalidConn | RNilRunnable
| RUnsupported | ROsErr | RCount (n : Z).

Inductive upc :=
| UIdle
| UStopPoll (expired : bool) (pkg : bool)    (* inside the poll loop of Engine.Stop / gnet.Stop *)
| UEnrollWait (opened : bool).               (* Client.Enroll blocked on <-connOpened *)

Inductive wpc := WDial | WTrigger | WWait | WDone.

Record worker := mkWk {
  w_pc : wpc;
  w_loop : nat;
  w_opened : bool;        (* connOpened closed *)
  w_res : Z;              (* RegisteredResults delivered *)
}.

Inductive target := TgtNone | TgtAddr | TgtConn.

Inductive call :=
| KValidate
| KCount
| KDup
| KDupListener (found : bool)
| KRegister (t : target) (li : nat)           (* Engine.Register(ctx) *)
| KElRegister (li : nat) (addr_nil : bool)    (* EventLoop.Register(ctx, addr) *)
| KElEnroll (li : nat) (conn_nil : bool)      (* EventLoop.Enroll(ctx, c) *)
| KExecute (li : nat) (nil_runnable : bool) (n : Z) (fails : bool)
| KStop (expired : bool)                      (* Engine.Stop(ctx) *)
| KPkgStop (known : bool) (expired : bool)    (* gnet.Stop(ctx, protoAddr) *)
| KCliEnroll (li : nat) (fails : bool)        (* Client.Dial / Client.Enroll *)
| KCliStop.                                   (* Client.Stop on a client that has been stopped *)

Inductive ioev :=
| IoOpen (h : hres)                  (* el.accept on the loop's own listener *)
| IoTraffic (cid : Z) (h : hres)     (* readable / wake: OnTraffic *)
| IoPeerClose (cid : Z) (ca : act)   (* EOF / error / hang-up: el.close from the read path *)
| IoDatagram (a : act).              (* UDP listener: OnTraffic on a transient connection *)

Inductive choice :=
| CNone
| CBoot (a : act)
| CClientStop
| CAccept (li : nat)
| CAcceptErr
| CIo (e : ioev)
| CRun (k : nat) (h : hres)
| CTick (a : act)
| CCall (c : call)
| CExpire
| CPollNil
| CPollCtx
| CDial (ok : bool)
| CTrig (fails : bool).

Inductive ekind :=
| KBoot | KShutdown | KTick | KOpen (cid : Z) | KTraffic (cid : Z) | KClose (cid : Z)
| KDatagram | KExec (n : Z)
| KRet                      (* Run / Client.Stop returned nil *)
| KRes (r : result)         (* a control call returned *)
| KResult (ok : bool).      (* a RegisteredResult was delivered: usable connection / error *)

Definition evt := (tid * ekind)%type.

Definition is_cb (k : ekind) : bool :=
  match k with
  | KBoot | KShutdown | KTick | KOpen _ | KTraffic _ | KClose _ | KDatagram | KExec _ => true
  | _ => false
  end.

Record config := mkCfg {
  c_client : bool;
  c_nlis : Z;            (* len(eng.listeners) *)
  c_reactor : bool;      (* activateReactors: main reactor + sub reactors *)
  c_ticker : bool;
  c_nloops : nat;
}.

Record estate := mkE {
  e_cfg : config;
  e_alloc : bool;        (* the handle's eng pointer is non-nil *)
  e_cancel : bool;       (* rootCtx cancelled (turnOff called) *)
  e_insd : bool;         (* inShutdown *)
  e_started : bool;      (* event loops registered: eventLoops.len() > 0 *)
  e_inall : bool;        (* allEngines holds the engine under its address *)
  e_loops : list loop;
  e_ing : loop;          (* main reactor (LIdle for ever unless c_reactor) *)
  e_r : rpc;
  e_t : tpc;
  e_users : list upc;
  e_workers : list worker;
  e_next : Z;            (* next connection id *)
  e_hist : list evt;     (* newest first *)
}.

(* ------------------------------------------------------------------ *)
(* setters *)

Definition set_cancel (s : estate) (b : bool) : estate :=
  mkE (e_cfg s) (e_alloc s) b (e_insd s) (e_started s) (e_inall s) (e_loops s) (e_ing s) (e_r s) (e_t s)
      (e_users s) (e_workers s) (e_next s) (e_hist s).
Definition set_insd (s : estate) (b : bool) : estate :=
  mkE (e_cfg s) (e_alloc s) (e_cancel s) b (e_started s) (e_inall s) (e_loops s) (e_ing s) (e_r s) (e_t s)
      (e_users s) (e_workers s) (e_next s) (e_hist s).
Definition set_inall (s : estate) (b : bool) : estate :=
  mkE (e_cfg s) (e_alloc s) (e_cancel s) (e_insd s) (e_started s) b (e_loops s) (e_ing s) (e_r s) (e_t s)
      (e_users s) (e_workers s) (e_next s) (e_hist s).
Definition set_loops (s : estate) (x : list loop) : estate :=
  mkE (e_cfg s) (e_alloc s) (e_cancel s) (e_insd s) (e_started s) (e_inall s) x (e_ing s) (e_r s) (e_t s)
      (e_users s) (e_workers s) (e_next s) (e_hist s).
Definition set_ing (s : estate) (x : loop) : estate :=
  mkE (e_cfg s) (e_alloc s) (e_cancel s) (e_insd s) (e_started s) (e_inall s) (e_loops s) x (e_r s) (e_t s)
      (e_users s) (e_workers s) (e_next s) (e_hist s).
Definition set_r (s : estate) (x : rpc) : estate :=
  mkE (e_cfg s) (e_alloc s) (e_cancel s) (e_insd s) (e_started s) (e_inall s) (e_loops s) (e_ing s) x (e_t s)
      (e_users s) (e_workers s) (e_next s) (e_hist s).
Definition set_t (s : estate) (x : tpc) : estate :=
  mkE (e_cfg s) (e_alloc s) (e_cancel s) (e_insd s) (e_started s) (e_inall s) (e_loops s) (e_ing s) (e_r s) x
      (e_users s) (e_workers s) (e_next s) (e_hist s).
Definition set_users (s : estate) (x : list upc) : estate :=
  mkE (e_cfg s) (e_alloc s) (e_cancel s) (e_insd s) (e_started s) (e_inall s) (e_loops s) (e_ing s) (e_r s) (e_t s)
      x (e_workers s) (e_next s) (e_hist s).
Definition set_workers (s : estate) (x : list worker) : estate :=
  mkE (e_cfg s) (e_alloc s) (e_cancel s) (e_insd s) (e_started s) (e_inall s) (e_loops s) (e_ing s) (e_r s) (e_t s)
      (e_users s) x (e_next s) (e_hist s).
Definition set_next (s : estate) (x : Z) : estate :=
  mkE (e_cfg s) (e_alloc s) (e_cancel s) (e_insd s) (e_started s) (e_inall s) (e_loops s) (e_ing s) (e_r s) (e_t s)
      (e_users s) (e_workers s) x (e_hist s).
Definition set_hist (s : estate) (x : list evt) : estate :=
  mkE (e_cfg s) (e_alloc s) (e_cancel s) (e_insd s) (e_started s) (e_inall s) (e_loops s) (e_ing s) (e_r s) (e_t s)
      (e_users s) (e_workers s) (e_next s) x.
(* OnBoot has been called: the handle exists; start: loops registered *)
Definition set_alloc (s : estate) (b : bool) : estate :=
  mkE (e_cfg s) b (e_cancel s) (e_insd s) (e_started s) (e_inall s) (e_loops s) (e_ing s) (e_r s) (e_t s)
      (e_users s) (e_workers s) (e_next s) (e_hist s).
Definition set_started (s : estate) (b : bool) : estate :=
  mkE (e_cfg s) (e_alloc s) (e_cancel s) (e_insd s) b (e_inall s) (e_loops s) (e_ing s) (e_r s) (e_t s)
      (e_users s) (e_workers s) (e_next s) (e_hist s).

Definition l_set_pc (l : loop) (p : lpc) : loop := mkLoop p (l_conns l) (l_q l) (l_pclosed l).
Definition l_set_conns (l : loop) (c : list Z) : loop := mkLoop (l_pc l) c (l_q l) (l_pclosed l).
Definition l_set_q (l : loop) (q : list task) : loop := mkLoop (l_pc l) (l_conns l) q (l_pclosed l).
Definition l_set_pclosed (l : loop) (b : bool) : loop := mkLoop (l_pc l) (l_conns l) (l_q l) b.

Fixpoint upd {A} (n : nat) (f : A -> A) (l : list A) : list A :=
  match l, n with
  | [], _ => []
  | x :: r, O => f x :: r
  | x :: r, S m => x :: upd m f r
  end.

Fixpoint remove_nth {A} (n : nat) (l : list A) : list A :=
  match l, n with
  | [], _ => []
  | _ :: r, O => r
  | x :: r, S m => x :: remove_nth m r
  end.

Fixpoint zremove (x : Z) (l : list Z) : list Z :=
  match l with
  | [] => []
  | y :: r => if x =? y then zremove x r else y :: zremove x r
  end.

Fixpoint zmem (x : Z) (l : list Z) : bool :=
  match l with
  | [] => false
  | y :: r => (x =? y) || zmem x r
  end.

Definition zlen {A} (l : list A) : Z := Z.of_nat (List.length l).

(* ------------------------------------------------------------------ *)
(* the control API as pure functions of the phase *)

Inductive phase := PEmpty | PRunning | PStopping | PShutdown.

Definition phase_of (alloc : bool) (nlis : Z) (cancel insd : bool) : phase :=
  if negb alloc || (nlis <=? 0) then PEmpty
  else if insd then PShutdown
  else if cancel then PStopping
  else PRunning.

Definition phase_s (s : estate) : phase :=
  phase_of (e_alloc s) (c_nlis (e_cfg s)) (e_cancel s) (e_insd s).

(* Engine.Validate *)
Definition validate (p : phase) : result :=
  match p with
  | PEmpty => REmpty
  | PShutdown => RInShutdown
  | PRunning | PStopping => RNil
  end.

(* Engine.CountConnections *)
Definition count_conns (p : phase) (n : Z) : result :=
  match validate p with RNil => RCount n | _ => RCount (-1) end.

(* Engine.Dup; lis_open: the listeners' descriptors are still open *)
Definition dup_res (p : phase) (nlis : Z) (lis_open : bool) : result :=
  match validate p with
  | RNil => if 1 <? nlis then RUnsupported else if lis_open then RNil else ROsErr
  | r => r
  end.

(* Engine.DupListener *)
Definition dup_listener_res (p : phase) (found lis_open : bool) : result :=
  match validate p with
  | RNil => if found then (if lis_open then RNil else ROsErr) else RInvalidAddr
  | r => r
  end.

(* Engine.Register: result and whether a worker is submitted, and whether its first step can fail:
   for an address the dial, for a connection handed in by the caller the duplication of its
   descriptor (it fails when the caller has already closed the connection) *)
Definition register_res (p : phase) (started : bool) (t : target) : result * option bool :=
  match validate p with
  | RNil =>
      if negb started then (REmpty, None)
      else match t with
           | TgtConn => (RNil, Some true)
           | TgtAddr => (RNil, Some true)
           | TgtNone => (RInvalidAddr, None)
           end
  | r => (r, None)
  end.

(* EventLoop.Register / EventLoop.Enroll / EventLoop.Execute test only inShutdown *)
Definition el_register_res (insd addr_nil : bool) : result * option bool :=
  if insd then (RInShutdown, None)
  else if addr_nil then (RInvalidAddr, None) else (RNil, Some true).

Definition el_enroll_res (insd conn_nil : bool) : result * option bool :=
  if insd then (RInShutdown, None)
  else if conn_nil then (RInvalidConn, None) else (RNil, Some true).

(* returns the result and whether the task is enqueued *)
Definition execute_res (insd nil_runnable trigger_fails : bool) : result * bool :=
  if insd then (RInShutdown, false)
  else if nil_runnable then (RNilRunnable, false)
  else (if trigger_fails then ROsErr else RNil, true).

(* Engine.Stop: Some r = returns r at once without effect; None = cancels and polls *)
Definition stop_entry (p : phase) : option result :=
  match validate p with RNil => None | r => Some r end.

(* ------------------------------------------------------------------ *)
(* loops *)

Definition get_loop (s : estate) (i : nat) : option loop := nth_error (e_loops s) i.

Definition enq_loop (l : loop) (t : task) : loop := l_set_q l (l_q l ++ [t]).

(* Trigger on loop i (the task is linked even when the eventfd write fails: the
   `fails` branches below enqueue it too, on a loop that will never run it) *)
Definition trigger (s : estate) (i : nat) (t : task) : estate :=
  set_loops s (upd i (fun l => enq_loop l t) (e_loops s)).

Definition trigger_ing (s : estate) (t : task) : estate := set_ing s (enq_loop (e_ing s) t).

Definition loop_pclosed (s : estate) (i : nat) : bool :=
  match get_loop s i with Some l => l_pclosed l | None => true end.

Definition total_conns (s : estate) : Z :=
  fold_right (fun l a => zlen (l_conns l) + a) 0 (e_loops s).

(* effect of a callback of connection cid returning h on the loop:
   (closed inside / because of the callback, shutdown sentinel raised,
    engine.shutdown called from the deferred close of conn.write) *)
Definition after_cb (h : hres) : bool * bool * bool :=
  if h_wfail h then (true, act_shut (h_act h), act_shut (h_cact h))
  else match h_act h with
       | ANone => (false, false, false)
       | AClose => (true, act_shut (h_cact h), false)
       | AShut => (false, true, false)
       end.

(* apply it: the loop, the events after the callback's own event, turnOff called *)
Definition apply_cb (t : tid) (l : loop) (cid : Z) (h : hres) : loop * list evt * bool :=
  let '(closed, sentinel, off) := after_cb h in
  let l1 := if closed then l_set_conns l (zremove cid (l_conns l)) else l in
  let l2 := if sentinel then l_set_pc l1 LClosing else l1 in
  (l2, if closed then [(t, KClose cid)] else [], off).

(* signal connOpened of a registration *)
Definition signal (s : estate) (o : owner) : estate :=
  match o with
  | ONone => s
  | OWorker k => set_workers s (upd k (fun w => mkWk (w_pc w) (w_loop w) true (w_res w)) (e_workers s))
  | OUser g => set_users s (upd g (fun u => match u with UEnrollWait _ => UEnrollWait true | x => x end) (e_users s))
  end.

(* has the loop its own listeners (reuse-port server)? *)
Definition own_listeners (s : estate) : bool :=
  negb (c_client (e_cfg s)) && negb (c_reactor (e_cfg s)).

(* the steps of an event loop / of the main reactor that do not depend on which of the two it is:
   result = new loop record, events, engine.shutdown called *)
Definition loop_common (t : tid) (l : loop) (c : choice) : option (loop * list evt * bool) :=
  match l_pc l, c with
  | LPoll, CAcceptErr => Some (l_set_pc l LClosing, [], false)
  | LClosing, CNone =>
      match l_conns l with
      | cid :: rest => Some (l_set_conns l rest, [(t, KClose cid)], false)
      | [] => Some (l_set_pc l LTurnOff, [], false)
      end
  | LTurnOff, CNone => Some (l_set_pc l LExited, [], true)
  | _, _ => None
  end.

Definition cancel_if (b : bool) (s : estate) : estate := if b then set_cancel s true else s.

Definition lstep (i : nat) (s : estate) (c : choice) : option (estate * list evt) :=
  match get_loop s i with
  | None => None
  | Some l =>
    let t := TL i in
    let put (l' : loop) (s : estate) := set_loops s (upd i (fun _ => l') (e_loops s)) in
    match l_pc l, c with
    | LPoll, CIo (IoOpen h) =>
        if own_listeners s then
          let cid := e_next s in
          let l1 := l_set_conns l (l_conns l ++ [cid]) in
          let '(l2, evs, d) := apply_cb t l1 cid h in
          Some (cancel_if d (set_next (put l2 s) (cid + 1)), (t, KOpen cid) :: evs)
        else None
    | LPoll, CIo (IoTraffic cid h) =>
        if zmem cid (l_conns l) then
          let '(l2, evs, d) := apply_cb t l cid h in
          Some (cancel_if d (put l2 s), (t, KTraffic cid) :: evs)
        else None
    | LPoll, CIo (IoPeerClose cid ca) =>
        if zmem cid (l_conns l) then
          let l1 := l_set_conns l (zremove cid (l_conns l)) in
          let l2 := if act_shut ca then l_set_pc l1 LClosing else l1 in
          Some (put l2 s, [(t, KClose cid)])
        else None
    | LPoll, CIo (IoDatagram a) =>
        if own_listeners s then
          Some (put (if act_shut a then l_set_pc l LClosing else l) s, [(t, KDatagram)])
        else None
    | LPoll, CRun k h =>
        match nth_error (l_q l) k with
        | None => None
        | Some tk =>
          let l0 := l_set_q l (remove_nth k (l_q l)) in
          match tk with
          | TShut => Some (put (l_set_pc l0 LClosing) s, [])
          | TReg cid o =>
              let l1 := l_set_conns l0 (l_conns l0 ++ [cid]) in
              let '(l2, evs, d) := apply_cb t l1 cid h in
              Some (signal (cancel_if d (put l2 s)) o, (t, KOpen cid) :: evs)
          | TExec n => Some (put l0 s, [(t, KExec n)])
          end
        end
    | _, _ =>
        match loop_common t l c with
        | Some (l', evs, off) =>
            let s1 := put l' s in
            Some (if off then set_cancel s1 true else s1, evs)
        | None => None
        end
    end
  end.

(* main reactor: el.rotate with accept0 *)
Definition astep (s : estate) (c : choice) : option (estate * list evt) :=
  let l := e_ing s in
  match l_pc l, c with
  | LPoll, CAccept li =>
      match get_loop s li with
      | None => None
      | Some _ =>
          let cid := e_next s in
          Some (set_next (trigger s li (TReg cid ONone)) (cid + 1), [])
      end
  | LPoll, CRun k _ =>
      match nth_error (l_q l) k with
      | Some TShut => Some (set_ing s (l_set_pc (l_set_q l (remove_nth k (l_q l))) LClosing), [])
      | _ => None
      end
  | _, _ =>
      match loop_common TA l c with
      | Some (l', evs, off) =>
          let s1 := set_ing s l' in
          Some (if off then set_cancel s1 true else s1, evs)
      | None => None
      end
  end.

(* ------------------------------------------------------------------ *)
(* ticker *)

Definition tstep (s : estate) (c : choice) : option (estate * list evt) :=
  match e_t s, c with
  | TRun, CTick a =>
      let s1 := if act_shut a
                then (if c_reactor (e_cfg s) then trigger_ing s TShut else trigger s 0 TShut)
                else s in
      Some (s1, [(TT, KTick)])
  | TRun, CNone => if e_cancel s then Some (set_t s TExited, []) else None
  | _, _ => None
  end.

(* ------------------------------------------------------------------ *)
(* the Run caller *)

Definition all_exited (s : estate) : bool :=
  forallb (fun l => match l_pc l with LExited => true | _ => false end) (e_loops s) &&
  match l_pc (e_ing s) with LIdle | LExited => true | _ => false end &&
  match e_t s with TRun => false | _ => true end.

Definition rstep (s : estate) (c : choice) : option (estate * list evt) :=
  let cfg := e_cfg s in
  match e_r s, c with
  | R0, CBoot a => Some (set_r (set_alloc s true) (RBooted a), [(TR, KBoot)])
  | RBooted a, CNone =>
      if negb (c_client cfg) && act_shut a then Some (set_r s RReturned, [(TR, KRet)])
      else
        let s1 := set_loops s (map (fun l => l_set_pc l LPoll) (e_loops s)) in
        let s2 := if c_reactor cfg then set_ing s1 (l_set_pc (e_ing s1) LPoll) else s1 in
        let s3 := if c_ticker cfg then set_t s2 TRun else s2 in
        Some (set_r (set_started s3 true) RStarted, [])
  | RStarted, CNone =>
      Some (set_r (if c_client cfg then s else set_inall s true) RServing, [])
  | RServing, CNone =>
      if negb (c_client cfg) && e_cancel s then Some (set_r s (RNotify 0), [(TR, KShutdown)]) else None
  | RServing, CClientStop =>
      if c_client cfg then Some (set_r (set_cancel s true) RCancelled, []) else None
  | RCancelled, CNone => Some (set_r s (RNotify 0), [(TR, KShutdown)])
  | RNotify k, CNone =>
      if (k <? List.length (e_loops s))%nat then Some (set_r (trigger s k TShut) (RNotify (S k)), [])
      else Some (set_r (if c_reactor cfg then trigger_ing s TShut else s) RWait, [])
  | RWait, CNone => if all_exited s then Some (set_r s RClosePollers, []) else None
  | RClosePollers, CNone =>
      Some (set_r (set_ing (set_loops s (map (fun l => l_set_pclosed l true) (e_loops s)))
                           (l_set_pclosed (e_ing s) true)) RStoreInsd, [])
  | RStoreInsd, CNone => Some (set_r (set_insd s true) RReturn, [])
  | RReturn, CNone => Some (set_r s RReturned, [(TR, KRet)])
  | _, _ => None
  end.

(* ------------------------------------------------------------------ *)
(* user goroutines: control calls *)

Definition get_user (s : estate) (g : nat) : option upc := nth_error (e_users s) g.
Definition put_user (s : estate) (g : nat) (u : upc) : estate := set_users s (upd g (fun _ => u) (e_users s)).

Definition new_worker (s : estate) (li : nat) (dial : bool) : estate :=
  set_workers s (e_workers s ++ [mkWk (if dial then WDial else WTrigger) li false 0]).

(* the listeners are closed by closeEventLoops and by the deferred function of Run/Rotate *)
Definition lis_open (s : estate) : bool :=
  match e_r s with RStoreInsd | RReturn | RReturned => false | _ => true end.

Definition do_call (g : nat) (s : estate) (k : call) : option (estate * list evt) :=
  let t := TU g in
  let p := phase_s s in
  let ret (s : estate) (r : result) := Some (s, [(t, KRes r)]) in
  let submit (s : estate) (li : nat) (rw : result * option bool) :=
    match rw with
    | (r, Some dial) => match get_loop s li with
                        | Some _ => ret (new_worker s li dial) r
                        | None => None
                        end
    | (r, None) => ret s r
    end in
  match k with
  | KValidate => ret s (validate p)
  | KCount => ret s (count_conns p (total_conns s))
  | KDup => ret s (dup_res p (c_nlis (e_cfg s)) (lis_open s))
  | KDupListener found => ret s (dup_listener_res p found (lis_open s))
  | KRegister tg li => submit s li (register_res p (e_started s) tg)
  | KElRegister li addr_nil => if e_started s then submit s li (el_register_res (e_insd s) addr_nil) else None
  | KElEnroll li conn_nil => if e_started s then submit s li (el_enroll_res (e_insd s) conn_nil) else None
  | KExecute li nilr n fails =>
      if e_started s then
        match get_loop s li with
        | None => None
        | Some l =>
            if fails && negb (l_pclosed l) then None else
            let '(r, q) := execute_res (e_insd s) nilr fails in
            ret (if q then trigger s li (TExec n) else s) r
        end
      else None
  | KStop expired =>
      match stop_entry p with
      | Some r => ret s r
      | None => Some (put_user (set_cancel s true) g (UStopPoll expired false), [])
      end
  | KPkgStop known expired =>
      if e_inall s && known then
        let s1 := set_cancel s true in
        if e_insd s then ret (set_inall s1 false) RInShutdown
        else Some (put_user s1 g (UStopPoll expired true), [])
      else ret s RInShutdown
  | KCliStop =>
      (* the first Client.Stop is the R thread's (CClientStop); a later one finds inShutdown set and is refused *)
      if c_client (e_cfg s) && e_insd s then ret s RInShutdown else None
  | KCliEnroll li fails =>
      if c_client (e_cfg s) && negb (e_started s) then
        (* no event loop registered yet: the client was never started *)
        (if fails then None else ret s REmpty)
      else if c_client (e_cfg s) && e_insd s then
        (if fails then None else ret s RInShutdown)
      else if c_client (e_cfg s) && e_started s then
        match get_loop s li with
        | None => None
        | Some l =>
            if fails then (if l_pclosed l
                           then ret (set_next (trigger s li (TReg (e_next s) (OUser g))) (e_next s + 1)) ROsErr
                           else None)
            else Some (put_user (set_next (trigger s li (TReg (e_next s) (OUser g))) (e_next s + 1)) g (UEnrollWait false), [])
        end
      else None
  end.

Definition ustep (g : nat) (s : estate) (c : choice) : option (estate * list evt) :=
  match get_user s g with
  | None => None
  | Some u =>
    let t := TU g in
    match u, c with
    | UIdle, CCall k => do_call g s k
    | UStopPoll e pkg, CExpire => Some (put_user s g (UStopPoll true pkg), [])
    | UStopPoll e pkg, CPollNil =>
        if e_insd s then Some (put_user (if pkg then set_inall s false else s) g UIdle, [(t, KRes RNil)]) else None
    | UStopPoll e pkg, CPollCtx =>
        if e then Some (put_user (if pkg then set_inall s false else s) g UIdle, [(t, KRes RCtxErr)]) else None
    | UEnrollWait true, CNone => Some (put_user s g UIdle, [(t, KRes RNil)])
    | _, _ => None
    end
  end.

(* ------------------------------------------------------------------ *)
(* worker-pool goroutines of Register / Enroll *)

Definition wstep (k : nat) (s : estate) (c : choice) : option (estate * list evt) :=
  match nth_error (e_workers s) k with
  | None => None
  | Some w =>
    let t := TW k in
    let put (w' : worker) (s : estate) := set_workers s (upd k (fun _ => w') (e_workers s)) in
    match w_pc w, c with
    | WDial, CDial true => Some (put (mkWk WTrigger (w_loop w) (w_opened w) (w_res w)) s, [])
    | WDial, CDial false => Some (put (mkWk WDone (w_loop w) (w_opened w) (w_res w + 1)) s, [(t, KResult false)])
    | WTrigger, CTrig fails =>
        match get_loop s (w_loop w) with
        | None => None
        | Some l =>
          let cid := e_next s in
          if fails then
            if l_pclosed l
            then Some (set_next (put (mkWk WDone (w_loop w) (w_opened w) (w_res w + 1))
                                     (trigger s (w_loop w) (TReg cid (OWorker k)))) (cid + 1), [(t, KResult false)])
            else None
          else
            Some (set_next (put (mkWk WWait (w_loop w) (w_opened w) (w_res w)) (trigger s (w_loop w) (TReg cid (OWorker k)))) (cid + 1), [])
        end
    | WWait, CNone =>
        if w_opened w then Some (put (mkWk WDone (w_loop w) true (w_res w + 1)) s, [(t, KResult true)]) else None
    | _, _ => None
    end
  end.

(* ------------------------------------------------------------------ *)
(* the system *)

Definition estep_opt (s : estate) (t : tid) (c : choice) : option (estate * list evt) :=
  match t with
  | TR => rstep s c
  | TL i => lstep i s c
  | TA => astep s c
  | TT => tstep s c
  | TU g => ustep g s c
  | TW k => wstep k s c
  end.

Definition push (evs : list evt) (s : estate) : estate := set_hist s (rev evs ++ e_hist s).

(* a disabled step stutters *)
Definition estep (s : estate) (tc : tid * choice) : estate * list evt :=
  match estep_opt s (fst tc) (snd tc) with
  | Some (s', evs) => (push evs s', evs)
  | None => (s, [])
  end.

Definition new_loop : loop := mkLoop LIdle [] [] false.

Definition einit (cfg : config) (nusers : nat) : estate :=
  mkE cfg false false false false false (repeat new_loop (c_nloops cfg)) new_loop R0 TIdle
      (repeat UIdle nusers) [] 0 [].

Definition is_init (s : estate) : Prop := exists cfg nu, s = einit cfg nu.

Definition ereachable : estate -> Prop := reachable is_init (fun_step estep).

(* ------------------------------------------------------------------ *)
(* history projections used by the properties *)

Fixpoint count_kind (p : ekind -> bool) (h : list evt) : Z :=
  match h with
  | [] => 0
  | (_, k) :: r => (if p k then 1 else 0) + count_kind p r
  end.

Definition opens (cid : Z) := count_kind (fun k => match k with KOpen c => c =? cid | _ => false end).
Definition closes (cid : Z) := count_kind (fun k => match k with KClose c => c =? cid | _ => false end).
Definition onshutdowns := count_kind (fun k => match k with KShutdown => true | _ => false end).
Definition returns := count_kind (fun k => match k with KRet => true | _ => false end).

Fixpoint count_results (w : nat) (h : list evt) : Z :=
  match h with
  | [] => 0
  | (TW k, KResult _) :: r => (if Nat.eqb k w then 1 else 0) + count_results w r
  | _ :: r => count_results w r
  end.

(* no callback event is newer than a return event *)
Fixpoint no_cb_after_ret (h : list evt) : bool :=
  match h with
  | [] => true
  | (_, KRet) :: _ => true
  | (_, k) :: r => if is_cb k then negb (0 <? returns r) && no_cb_after_ret r else no_cb_after_ret r
  end.

Definition returned (s : estate) : bool := match e_r s with RReturned => true | _ => false end.

(* ------------------------------------------------------------------ *)
(* shutdown: request, progress, measure *)

Definition has_shut (q : list task) : bool :=
  existsb (fun t => match t with TShut => true | _ => false end) q.

Definition loop_unwinding (l : loop) : bool :=
  match l_pc l with
  | LClosing | LTurnOff => true
  | LPoll => has_shut (l_q l)
  | _ => false
  end.

(* shutdown has been requested in a way the engine acts upon *)
Definition requested (s : estate) : bool :=
  e_cancel s || existsb loop_unwinding (e_loops s) || loop_unwinding (e_ing s).

(* index of the first queued exit task *)
Fixpoint shut_index (q : list task) : option nat :=
  match q with
  | [] => None
  | TShut :: _ => Some O
  | _ :: r => match shut_index r with Some n => Some (S n) | None => None end
  end.

Definition loop_measure (l : loop) : nat :=
  match l_pc l with
  | LIdle => 3
  | LPoll => 3 + List.length (l_conns l)
  | LClosing => 2 + List.length (l_conns l)
  | LTurnOff => 1
  | LExited => 0
  end.

Definition r_measure (s : estate) : nat :=
  match e_r s with
  | R0 => 11 + List.length (e_loops s)
  | RBooted _ => 10 + List.length (e_loops s)
  | RStarted => 9 + List.length (e_loops s)
  | RServing => 8 + List.length (e_loops s)
  | RCancelled => 7 + List.length (e_loops s)
  | RNotify k => 6 + (List.length (e_loops s) - k)
  | RWait => 4
  | RClosePollers => 3
  | RStoreInsd => 2
  | RReturn => 1
  | RReturned => 0
  end.

Definition t_measure (s : estate) : nat := match e_t s with TExited => 0 | _ => 1 end.

Definition measure (s : estate) : nat :=
  r_measure s + fold_right (fun l a => loop_measure l + a)%nat O (e_loops s) + loop_measure (e_ing s) + t_measure s.

(* the steps by which the engine itself carries a shutdown forward *)
Definition is_progress (s : estate) (t : tid) (c : choice) : bool :=
  match t, c with
  | TR, CNone => true
  | TL i, CNone => true
  | TL i, CRun k _ => match get_loop s i with
                      | Some l => match nth_error (l_q l) k with Some TShut => true | _ => false end
                      | None => false
                      end
  | TA, CNone => true
  | TA, CRun k _ => true
  | TT, CNone => true
  | _, _ => false
  end.

(* ------------------------------------------------------------------ *)
(* correspondence runner.

   op lines (driver actions and observed policy inputs):
     cfg <client> <nloops> <reactor> <ticker> <nlis> <nusers>
     boot <act>                                  Run / Client.Start is called, OnBoot returns act
     pin <thread> | release <thread>             thread = R:<pc> | L<i> | T   (R:boot, R:onshutdown, R:closepollers)
     connect <li> <act> <wfail> <cact>           a peer connects and is assigned to loop li
     traffic <cid> <li> <act> <wfail> <cact>     data arrives on connection cid of loop li
     peerclose <cid> <li> <cact>
     datagram <li> <act>
     tick <act>
     call <g> <fn> <args...>
     expire <g>
     clientstop
     probe                                       hidden state at a quiescent point: cancelled, inShutdown, CountConnections
     poke                                        the peers poke the engine after Run returned (no effect expected)
     finish
   After every op all enabled threads that are not pinned run, in a fixed order,
   until nothing is enabled; the events are reported per thread (those of the engine's
   own threads only once no pin is armed, see run_ops). *)

Definition act_of (a : arg) : act :=
  match a with
  | ASym s => if sym_eqb s "close" then AClose else if sym_eqb s "shutdown" then AShut else ANone
  | _ => ANone
  end.
Definition bool_of (a : arg) : bool := match a with AInt 1 => true | _ => false end.
Definition nat_of (a : arg) : nat := match a with AInt z => Z.to_nat z | _ => O end.

Definition hres_of (a w c : arg) : hres := mkH (act_of a) (bool_of w) (act_of c).

Inductive pinpt := PinRBoot | PinROnShutdown | PinRClosePollers | PinL (i : nat) | PinT.

Record rstate := mkRS {
  rs_e : estate;
  rs_pins : list pinpt;
  rs_io : list (nat * ioev);        (* pending I/O events per loop, oldest first *)
  rs_ticks : list act;              (* pending OnTick results *)
  rs_ch : list (Z * hres);          (* OnOpen script by connection id (accepted connections) *)
  rs_wh : list (nat * hres);        (* OnOpen script by worker *)
  rs_uh : list (nat * hres);        (* OnOpen script by user goroutine (Client.Dial) *)
  rs_dial : list (nat * bool);      (* dial outcome by worker *)
  rs_out : list evt;                (* events of the current settle round, oldest first *)
}.

Definition rs_set_e (r : rstate) (e : estate) : rstate :=
  mkRS e (rs_pins r) (rs_io r) (rs_ticks r) (rs_ch r) (rs_wh r) (rs_uh r) (rs_dial r) (rs_out r).

Definition pin_eqb (a b : pinpt) : bool :=
  match a, b with
  | PinRBoot, PinRBoot | PinROnShutdown, PinROnShutdown | PinRClosePollers, PinRClosePollers | PinT, PinT => true
  | PinL i, PinL j => Nat.eqb i j
  | _, _ => false
  end.
Definition pinned (r : rstate) (p : pinpt) : bool := existsb (pin_eqb p) (rs_pins r).

Fixpoint nlookup {A} (k : nat) (m : list (nat * A)) : option A :=
  match m with
  | [] => None
  | (k', v) :: r => if Nat.eqb k k' then Some v else nlookup k r
  end.
Fixpoint zlookup {A} (k : Z) (m : list (Z * A)) : option A :=
  match m with
  | [] => None
  | (k', v) :: r => if k =? k' then Some v else zlookup k r
  end.

Definition script_for (r : rstate) (tk : task) : hres :=
  match tk with
  | TReg cid ONone => match zlookup cid (rs_ch r) with Some h => h | None => h_none end
  | TReg _ (OWorker k) => match nlookup k (rs_wh r) with Some h => h | None => h_none end
  | TReg _ (OUser g) => match nlookup g (rs_uh r) with Some h => h | None => h_none end
  | _ => h_none
  end.

(* try one step of thread t with choice c; record its events *)
Definition try_step (r : rstate) (t : tid) (c : choice) : option rstate :=
  match estep_opt (rs_e r) t c with
  | Some (e', evs) =>
      Some (mkRS (push evs e') (rs_pins r) (rs_io r) (rs_ticks r) (rs_ch r) (rs_wh r) (rs_uh r) (rs_dial r)
                 (rs_out r ++ evs))
  | None => None
  end.

Fixpoint take_io (i : nat) (l : list (nat * ioev)) : option (ioev * list (nat * ioev)) :=
  match l with
  | [] => None
  | (j, e) :: r =>
      if Nat.eqb i j then Some (e, r)
      else match take_io i r with Some (e', r') => Some (e', (j, e) :: r') | None => None end
  end.

Definition r_blocked (r : rstate) : bool :=
  match e_r (rs_e r) with
  | RBooted _ => pinned r PinRBoot
  | RNotify O => pinned r PinROnShutdown
  | RClosePollers => pinned r PinRClosePollers
  | _ => false
  end.

(* the next step of loop i under the canonical scheduler: pending I/O first, then the
   oldest queued task, then the internal steps *)
Definition sched_loop (r : rstate) (i : nat) : option rstate :=
  if pinned r (PinL i) then None else
  match get_loop (rs_e r) i with
  | None => None
  | Some l =>
    match l_pc l with
    | LPoll =>
        match take_io i (rs_io r) with
        | Some (e, rest) =>
            let r1 := mkRS (rs_e r) (rs_pins r) rest (rs_ticks r) (rs_ch r) (rs_wh r) (rs_uh r) (rs_dial r) (rs_out r) in
            match try_step r1 (TL i) (CIo e) with
            | Some r2 => Some r2
            | None => Some r1          (* the event finds its connection gone: dropped *)
            end
        | None =>
            match l_q l with
            | tk :: _ => try_step r (TL i) (CRun 0 (script_for r tk))
            | [] => None
            end
        end
    | _ => try_step r (TL i) CNone
    end
  end.

Fixpoint first_some {A} (f : nat -> option A) (n : nat) (i : nat) : option A :=
  match n with
  | O => None
  | S m => match f i with Some x => Some x | None => first_some f m (S i) end
  end.

Definition sched_worker (r : rstate) (k : nat) : option rstate :=
  match nth_error (e_workers (rs_e r)) k with
  | None => None
  | Some w =>
    match w_pc w with
    | WDial => try_step r (TW k) (CDial (match nlookup k (rs_dial r) with Some b => b | None => true end))
    | WTrigger => try_step r (TW k) (CTrig false)
    | WWait => try_step r (TW k) CNone
    | WDone => None
    end
  end.

Definition sched_user (r : rstate) (g : nat) : option rstate :=
  match get_user (rs_e r) g with
  | Some (UStopPoll e _) =>
      match try_step r (TU g) CPollNil with
      | Some r' => Some r'
      | None => try_step r (TU g) CPollCtx
      end
  | Some (UEnrollWait _) => try_step r (TU g) CNone
  | _ => None
  end.

Definition sched_ticker (r : rstate) : option rstate :=
  if pinned r PinT then None else
  match e_t (rs_e r) with
  | TRun =>
      match rs_ticks r with
      | a :: rest =>
          try_step (mkRS (rs_e r) (rs_pins r) (rs_io r) rest (rs_ch r) (rs_wh r) (rs_uh r) (rs_dial r) (rs_out r)) TT (CTick a)
      | [] => try_step r TT CNone
      end
  | _ => None
  end.

Definition sched_one (r : rstate) : option rstate :=
  let e := rs_e r in
  match first_some (sched_user r) (List.length (e_users e)) 0 with
  | Some r' => Some r'
  | None =>
  match (if r_blocked r then None else try_step r TR CNone) with
  | Some r' => Some r'
  | None =>
  match first_some (sched_loop r) (List.length (e_loops e)) 0 with
  | Some r' => Some r'
  | None =>
  match (match l_pc (e_ing e), l_q (e_ing e) with
         | LPoll, _ :: _ => try_step r TA (CRun 0 h_none)
         | LPoll, [] => None
         | _, _ => try_step r TA CNone
         end) with
  | Some r' => Some r'
  | None =>
  match sched_ticker r with
  | Some r' => Some r'
  | None => first_some (sched_worker r) (List.length (e_workers e)) 0
  end end end end end.

Fixpoint settle (fuel : nat) (r : rstate) : rstate :=
  match fuel with
  | O => r
  | S f => match sched_one r with Some r' => settle f r' | None => r end
  end.

(* printing *)
Definition act_sym (a : act) : arg := ASym (match a with ANone => "none" | AClose => "close" | AShut => "shutdown" end).

Definition tid_args (t : tid) : list arg :=
  match t with
  | TR => [ASym "R"]
  | TL i => [ASym "L"; AInt (Z.of_nat i)]
  | TA => [ASym "A"]
  | TT => [ASym "T"]
  | TU g => [ASym "U"; AInt (Z.of_nat g)]
  | TW k => [ASym "W"; AInt (Z.of_nat k)]
  end.

Definition result_args (r : result) : list arg :=
  match r with
  | RNil => [ASym "nil"]
  | REmpty => [ASym "empty"]
  | RInShutdown => [ASym "inshutdown"]
  | RCtxErr => [ASym "ctxerr"]
  | RInvalidAddr => [ASym "invalidaddr"]
  | RInvalidConn => [ASym "invalidconn"]
  | RNilRunnable => [ASym "nilrunnable"]
  | RUnsupported => [ASym "unsupported"]
  | ROsErr => [ASym "oserr"]
  | RCount n => [ASym "count"; AInt n]
  end.

Definition kind_args (k : ekind) : list arg :=
  match k with
  | KBoot => [ASym "boot"]
  | KShutdown => [ASym "shutdown"]
  | KTick => [ASym "tick"]
  | KOpen c => [ASym "open"; AInt c]
  | KTraffic c => [ASym "traffic"; AInt c]
  | KClose c => [ASym "close"; AInt c]
  | KDatagram => [ASym "datagram"]
  | KExec n => [ASym "exec"; AInt n]
  | KRet => [ASym "ret"; ASym "nil"]
  | KRes r => ASym "res" :: result_args r
  | KResult ok => [ASym "result"; ASym (if ok then "conn" else "err")]
  end.

Definition tid_eqb (a b : tid) : bool :=
  match a, b with
  | TR, TR | TA, TA | TT, TT => true
  | TL i, TL j | TU i, TU j | TW i, TW j => Nat.eqb i j
  | _, _ => false
  end.

(* the threads in reporting order *)
Definition thread_order (e : estate) : list tid :=
  TR :: map TL (seq 0 (List.length (e_loops e))) ++ [TA; TT] ++
  map TU (seq 0 (List.length (e_users e))) ++ map TW (seq 0 (List.length (e_workers e))).

(* within one thread, runs of consecutive close events are reported in ascending
   connection order (the iteration order of closeConns is not specified) *)
Fixpoint insert_close (c : Z) (l : list Z) : list Z :=
  match l with
  | [] => [c]
  | x :: r => if c <=? x then c :: l else x :: insert_close c r
  end.

Fixpoint canon_kinds (run : list Z) (ks : list ekind) : list ekind :=
  match ks with
  | [] => map KClose run
  | KClose c :: r => canon_kinds (insert_close c run) r
  | k :: r => map KClose run ++ k :: canon_kinds [] r
  end.

Definition report (e : estate) (evs : list evt) : list line :=
  flat_map (fun t =>
    let ks := flat_map (fun ev => if tid_eqb (fst ev) t then [snd ev] else []) evs in
    map (fun k => obs "ev" (tid_args t ++ kind_args k)) (canon_kinds [] ks)) (thread_order e).

Definition pin_of (a : list arg) : option pinpt :=
  match a with
  | [ASym s] =>
      if sym_eqb s "R:boot" then Some PinRBoot
      else if sym_eqb s "R:onshutdown" then Some PinROnShutdown
      else if sym_eqb s "R:closepollers" then Some PinRClosePollers
      else if sym_eqb s "T" then Some PinT
      else None
  | [ASym s; AInt i] => if sym_eqb s "L" then Some (PinL (Z.to_nat i)) else None
  | _ => None
  end.

Definition call_of (r : rstate) (g : nat) (fn : string) (a : list arg) : option (call * rstate) :=
  let nw := List.length (e_workers (rs_e r)) in
  let with_w (h : hres) (dial_ok : bool) :=
    mkRS (rs_e r) (rs_pins r) (rs_io r) (rs_ticks r) (rs_ch r) ((nw, h) :: rs_wh r) (rs_uh r)
         ((nw, dial_ok) :: rs_dial r) (rs_out r) in
  if sym_eqb fn "validate" then Some (KValidate, r)
  else if sym_eqb fn "count" then Some (KCount, r)
  else if sym_eqb fn "dup" then Some (KDup, r)
  else if sym_eqb fn "duplistener" then
    match a with [f] => Some (KDupListener (bool_of f), r) | _ => None end
  else if sym_eqb fn "register" then
    (* register <target none|addr|conn> <li> <dialok> <act> <wfail> <cact> *)
    match a with
    | [ASym tg; li; ok; x; y; z] =>
        let t := if sym_eqb tg "addr" then TgtAddr else if sym_eqb tg "conn" then TgtConn else TgtNone in
        Some (KRegister t (nat_of li), with_w (hres_of x y z) (bool_of ok))
    | _ => None
    end
  else if sym_eqb fn "elregister" then
    match a with
    | [li; isnil; ok; x; y; z] => Some (KElRegister (nat_of li) (bool_of isnil), with_w (hres_of x y z) (bool_of ok))
    | _ => None
    end
  else if sym_eqb fn "elenroll" then
    match a with
    | [li; isnil; ok; x; y; z] => Some (KElEnroll (nat_of li) (bool_of isnil), with_w (hres_of x y z) (bool_of ok))
    | _ => None
    end
  else if sym_eqb fn "execute" then
    match a with
    | [li; isnil; AInt n] => Some (KExecute (nat_of li) (bool_of isnil) n false, r)
    | _ => None
    end
  else if sym_eqb fn "stop" then
    match a with [e] => Some (KStop (bool_of e), r) | _ => None end
  else if sym_eqb fn "pkgstop" then
    match a with [k; e] => Some (KPkgStop (bool_of k) (bool_of e), r) | _ => None end
  else if sym_eqb fn "clistop" then
    match a with [] => Some (KCliStop, r) | _ => None end
  else if sym_eqb fn "dial" then
    match a with
    | [li; x; y; z] =>
        Some (KCliEnroll (nat_of li) false,
              mkRS (rs_e r) (rs_pins r) (rs_io r) (rs_ticks r) (rs_ch r) (rs_wh r) ((g, hres_of x y z) :: rs_uh r)
                   (rs_dial r) (rs_out r))
    | _ => None
    end
  else None.

Definition bad (what : string) : list line := [obs "desync" [ASym what]].

(* apply one op (without settling); None = malformed *)
Definition apply_op (r : rstate) (l : line) : option (rstate * list line) :=
  let e := rs_e r in
  let step t c := match try_step r t c with Some r' => Some (r', []) | None => Some (r, []) end in
  match l with
  | ("boot", [a]) => step TR (CBoot (act_of a))
  | ("pin", a) =>
      match pin_of a with
      | Some p => Some (mkRS e (p :: rs_pins r) (rs_io r) (rs_ticks r) (rs_ch r) (rs_wh r) (rs_uh r) (rs_dial r) (rs_out r), [])
      | None => None
      end
  | ("release", a) =>
      match pin_of a with
      | Some p => Some (mkRS e (filter (fun q => negb (pin_eqb p q)) (rs_pins r)) (rs_io r) (rs_ticks r) (rs_ch r)
                             (rs_wh r) (rs_uh r) (rs_dial r) (rs_out r), [])
      | None => None
      end
  | ("connect", [li; a; w; c]) =>
      let h := hres_of a w c in
      if c_reactor (e_cfg e) then
        let r1 := mkRS e (rs_pins r) (rs_io r) (rs_ticks r) ((e_next e, h) :: rs_ch r) (rs_wh r) (rs_uh r) (rs_dial r) (rs_out r) in
        match try_step r1 TA (CAccept (nat_of li)) with Some r' => Some (r', []) | None => Some (r, []) end
      else
        Some (mkRS e (rs_pins r) (rs_io r ++ [(nat_of li, IoOpen h)]) (rs_ticks r) (rs_ch r) (rs_wh r) (rs_uh r) (rs_dial r) (rs_out r), [])
  | ("traffic", [AInt cid; li; a; w; c]) =>
      Some (mkRS e (rs_pins r) (rs_io r ++ [(nat_of li, IoTraffic cid (hres_of a w c))]) (rs_ticks r) (rs_ch r) (rs_wh r)
                 (rs_uh r) (rs_dial r) (rs_out r), [])
  | ("peerclose", [AInt cid; li; c]) =>
      Some (mkRS e (rs_pins r) (rs_io r ++ [(nat_of li, IoPeerClose cid (act_of c))]) (rs_ticks r) (rs_ch r) (rs_wh r)
                 (rs_uh r) (rs_dial r) (rs_out r), [])
  | ("datagram", [li; a]) =>
      Some (mkRS e (rs_pins r) (rs_io r ++ [(nat_of li, IoDatagram (act_of a))]) (rs_ticks r) (rs_ch r) (rs_wh r)
                 (rs_uh r) (rs_dial r) (rs_out r), [])
  | ("tick", [a]) =>
      Some (mkRS e (rs_pins r) (rs_io r) (rs_ticks r ++ [act_of a]) (rs_ch r) (rs_wh r) (rs_uh r) (rs_dial r) (rs_out r), [])
  | ("call", g :: ASym fn :: a) =>
      match call_of r (nat_of g) fn a with
      | Some (k, r1) => match try_step r1 (TU (nat_of g)) (CCall k) with
                        | Some r' => Some (r', [])
                        | None => Some (r, [obs "ev" (tid_args (TU (nat_of g)) ++ [ASym "res"; ASym "disabled"])])
                        end
      | None => None
      end
  | ("expire", [g]) => step (TU (nat_of g)) CExpire
  | ("clientstop", []) => step TR CClientStop
  | ("poke", []) => Some (r, [])
  | ("par", _) => Some (r, [])
  | ("probe", []) =>
      Some (r, [obs "probe" [bool_arg (e_cancel e); bool_arg (e_insd e);
                             AInt (match count_conns (phase_s e) (total_conns e) with RCount n => n | _ => -2 end)]])
  | ("finish", []) =>
      (* registrations that have not delivered a result by the end of the case *)
      Some (r, flat_map (fun k => match nth_error (e_workers e) k with
                                  | Some w => if w_res w =? 0 then [obs "ev" (tid_args (TW k) ++ [ASym "result"; ASym "none"])] else []
                                  | None => []
                                  end) (seq 0 (List.length (e_workers e))))
  | _ => None
  end.

(* events of the engine's own threads (Run caller, loops, main reactor, ticker) are held back
   while a pin is armed and reported in the first window without pins (a pinned thread makes the
   others' reaction time unbounded, so their events are not attributed to single ops there);
   results of user goroutines and workers are always reported in the window in which they occur *)
Definition engine_thread (t : tid) : bool := match t with TR | TL _ | TA | TT => true | _ => false end.

Definition is_finish (l : line) : bool := String.eqb (fst l) "finish".

Fixpoint run_ops (fuel : nat) (r : rstate) (ops : list line) : list line :=
  match ops with
  | [] => []
  | l :: rest =>
      match apply_op r l with
      | None => bad "op"
      | Some (r1, direct) =>
          let r2 := settle fuel r1 in
          let held := match rs_pins r2 with [] => false | _ => negb (is_finish l) end in
          let now := if held then filter (fun e => negb (engine_thread (fst e))) (rs_out r2) else rs_out r2 in
          let keep := if held then filter (fun e => engine_thread (fst e)) (rs_out r2) else [] in
          direct ++ report (rs_e r2) now ++
          run_ops fuel (mkRS (rs_e r2) (rs_pins r2) (rs_io r2) (rs_ticks r2) (rs_ch r2) (rs_wh r2) (rs_uh r2) (rs_dial r2) keep) rest
      end
  end.

Definition run_engine : runner := fun i =>
  match i with
  | ("cfg", [cl; nl; re; ti; nlis; nu]) :: rest =>
      let cfg := mkCfg (bool_of cl) (match nlis with AInt z => z | _ => 0 end) (bool_of re) (bool_of ti) (nat_of nl) in
      run_ops (200 + 40 * List.length rest)
              (mkRS (einit cfg (nat_of nu)) [] [] [] [] [] [] [] []) rest
  | _ => bad "no-cfg"
  end.
