(* Specification side of C10: what every operation of elastic.RingBuffer and of
   elastic.Buffer must do, stated on the abstract FIFO content (Spec/Fifo.v)
   only.  [ering_op_spec q o x q'] / [ebuf_op_spec q o x q'] relate the content
   before, the operation (with all its inputs: arguments, the capacity the pool
   would hand back, reader / writer scripts), the observable result and the
   content after.  Definitions only. *)
From GV Require Import Lib.Trace Spec.Fifo Model.Elastic.
From GV Require Model.Ring Model.LList Spec.RingSpec Spec.LListSpec.
Open Scope Z_scope.

(* ---- abstraction functions and representation invariants ---- *)

(* the elastic ring buffer holds the content of its ring, or nothing *)
Definition rcontent (e : ering) : fifo :=
  match e with None => [] | Some rb => RingSpec.content rb end.

Definition ering_inv (e : ering) : Prop :=
  match e with None => True | Some rb => RingSpec.ring_inv rb end.

(* the byte values held by the list part *)
Definition lcontent (l : LList.buffer) : fifo := map unlit (LListSpec.content l).

(* the mixed buffer: the ring part is older than the list part *)
Definition bcontent (b : buffer) : fifo := (rcontent (eb_ring b) ++ lcontent (eb_list b))%list.

Definition binv (b : buffer) : Prop := ering_inv (eb_ring b) /\ LListSpec.inv (eb_list b).

(* ---- what a Go caller can supply ---- *)
(* len(p) below 2^62; the pool hands back a capacity >= 0; io.Reader /
   io.Writer return counts >= 0 (the list part panics otherwise, as coded) *)
Definition max_len : Z := 4611686018427387904.

Definition script_ok (sc : script) : Prop := Forall (fun ke => 0 <= fst ke) sc.

Definition rop_wf (o : rop) : Prop :=
  match o with
  | RoWrite c p | RoWriteString c p => 0 <= c /\ zlen p <= max_len
  | RoWriteByte c _ => 0 <= c
  | RoRead n => 0 <= n
  | RoReadFrom c _ _ => 0 <= c
  | _ => True
  end.

Definition bop_wf (o : bop) : Prop :=
  match o with
  | BoWrite c p => 0 <= c /\ zlen p <= max_len
  | BoWritev c bs => 0 <= c /\ Forall (fun x => zlen x <= max_len) bs
  | BoRead n => 0 <= n
  | BoReadFrom c _ sc => 0 <= c /\ script_ok sc
  | BoWriteTo sc => script_ok sc
  | _ => True
  end.

(* ---- elastic.RingBuffer ---- *)
Definition ering_op_spec (q : fifo) (o : rop) (x : xout) (q' : fifo) : Prop :=
  match o, x with
  | RoWrite _ p, XWrite n e | RoWriteString _ p, XWrite n e =>
      n = zlen p /\ e = XNil /\ q' = fifo_push q p
  | RoWriteByte _ b, XWriteByte e => e = XNil /\ q' = fifo_push q [b]
  | RoRead n, XRead d k e =>
      (d, q') = fifo_take q n /\ k = zlen d /\
      (q <> [] -> e = XNil) /\ (q = [] -> 0 < n -> e = XEmpty)
  | RoReadByte, XReadByte b e =>
      match q with
      | [] => e = XEmpty /\ q' = []
      | y :: t => b = y /\ e = XNil /\ q' = t
      end
  | RoPeek n, XPeek2 h t => (h ++ t)%list = (if n <=? 0 then q else fifo_peek q n) /\ q' = q
  | RoDiscard n, XDiscard k e =>
      k = zlen (fst (fifo_take q n)) /\ q' = snd (fifo_take q n) /\ (q <> [] -> e = XNil)
  | RoBytes, XBytes d => d = q /\ q' = q
  | RoReadFrom _ src _, XReadFrom n e rem =>
      (* exactly the k bytes the reader delivered are appended; k is reported *)
      exists k, 0 <= k <= zlen src /\ n = k /\ rem = zlen src - k /\ q' = fifo_push q (ztake k src)
  | RoWriteTo _, XWriteTo n e recv =>
      (* exactly the n bytes the writer accepted are consumed; success means all *)
      (recv, q') = fifo_take q n /\ 0 <= n <= fifo_len q /\ (e = XNil -> q' = []) /\ (q = [] -> e = XEmpty)
  | RoReset, XUnit | RoDone, XUnit => q' = []
  | RoBuffered, XInt z => z = fifo_len q /\ q' = q
  | RoIsEmpty, XBool b => b = fifo_is_empty q /\ q' = q
  | RoAvailable, XInt _ | RoCap, XInt _ | RoLen, XInt _ => q' = q
  | RoIsFull, XBool _ => q' = q
  | _, _ => False
  end.

Inductive ering_run : fifo -> list rop -> list xout -> fifo -> Prop :=
| ering_run_nil q : ering_run q [] [] q
| ering_run_cons q o x q1 ops xs q2 :
    ering_op_spec q o x q1 -> ering_run q1 ops xs q2 -> ering_run q (o :: ops) (x :: xs) q2.

(* ---- elastic.Buffer ---- *)
Definition ebuf_op_spec (q : fifo) (o : bop) (x : xout) (q' : fifo) : Prop :=
  match o, x with
  | BoWrite _ p, XWrite n e => n = zlen p /\ e = XNil /\ q' = fifo_push q p
  | BoWritev _ bs, XWrite n e =>
      (* whatever the split into segments: the concatenation is appended *)
      n = zlen (List.concat bs) /\ e = XNil /\ q' = fifo_push q (List.concat bs)
  | BoRead n, XRead d k e =>
      (d, q') = fifo_take q n /\ k = zlen d /\ (0 < n <= fifo_len q -> e = XNil)
  | BoPeek n, XPeek e segs =>
      q' = q /\
      (n <= 0 \/ n = LList.MaxInt32 -> e = XNil /\ List.concat segs = fifo_peek q LList.MaxInt32) /\
      (0 < n <= fifo_len q -> n <> LList.MaxInt32 -> e = XNil /\ List.concat segs = fifo_peek q n) /\
      (fifo_len q < n -> n <> LList.MaxInt32 -> e = XShortBuf /\ segs = [])
  | BoDiscard n, XDiscard k e =>
      k = zlen (fst (fifo_take q n)) /\ q' = snd (fifo_take q n) /\ (0 < n -> e = XNil)
  | BoReadFrom _ src _, XReadFrom n e rem =>
      exists k, 0 <= k <= zlen src /\ n = k /\ rem = zlen src - k /\ q' = fifo_push q (ztake k src)
  | BoWriteTo _, XWriteTo n e recv =>
      (recv, q') = fifo_take q n /\ 0 <= n <= fifo_len q /\ (e = XNil -> q' = [])
  | BoReset _, XUnit | BoRelease, XUnit => q' = []
  | BoBuffered, XInt z => z = fifo_len q /\ q' = q
  | BoIsEmpty, XBool b => b = fifo_is_empty q /\ q' = q
  | _, _ => False
  end.

Inductive ebuf_run : fifo -> list bop -> list xout -> fifo -> Prop :=
| ebuf_run_nil q : ebuf_run q [] [] q
| ebuf_run_cons q o x q1 ops xs q2 :
    ebuf_op_spec q o x q1 -> ebuf_run q1 ops xs q2 -> ebuf_run q (o :: ops) (x :: xs) q2.

(* write-type operations and the bytes they accept *)
Definition is_write (o : bop) : bool :=
  match o with BoWrite _ _ | BoWritev _ _ | BoReadFrom _ _ _ => true | _ => false end.

Definition accepted (o : bop) (x : xout) : list Z :=
  match o, x with
  | BoWrite _ p, _ => p
  | BoWritev _ bs, _ => List.concat bs
  | BoReadFrom _ src _, XReadFrom n _ _ => ztake n src
  | _, _ => []
  end.
