package main

import (
	"fmt"
	"runtime"

	"github.com/panjf2000/gnet/v2/pkg/buffer/ring"
	"github.com/panjf2000/gnet/v2/pkg/pool/ringbuffer"

	"verifharness/tr"
)

type rbDonated struct {
	serial int
	b      *ring.Buffer
}

type rbHeld struct{ client, id int }

// interpreter for the ring-buffer pool ops (always on a private Pool value)
type rbs struct {
	pool   *ringbuffer.Pool
	bufs   []*ring.Buffer // id -> buffer (kept alive: addresses stay unique)
	mirror []rbDonated
	held   []rbHeld
	nput   int
	disc   bool
}

func newRBS(calibrated bool) *rbs {
	s := &rbs{pool: &ringbuffer.Pool{}, disc: true}
	if calibrated {
		// drive the calibration: > 42000 Puts of 64-byte buffers => defaultSize = maxSize = 64
		for i := 0; i < 42001; i++ {
			s.pool.Put(ring.New(64))
		}
		runtime.GC()
		runtime.GC()
		w.Tag("rb-calibrated")
	}
	return s
}

func (s *rbs) holds(c, id int) int {
	for i, h := range s.held {
		if h.client == c && h.id == id {
			return i
		}
	}
	return -1
}

func (s *rbs) unheld(id int) bool {
	for _, h := range s.held {
		if h.id == id {
			return false
		}
	}
	return true
}

func (s *rbs) exec(op tr.Line) {
	switch op.Name {
	case "rbget":
		c := op.Int(0)
		b := s.pool.Get()
		k := -1
		for i, d := range s.mirror {
			if d.b == b {
				k = i
				break
			}
		}
		choice, id := -1, -1
		if k >= 0 {
			choice = s.mirror[k].serial
			s.mirror = append(s.mirror[:k:k], s.mirror[k+1:]...)
			for i, x := range s.bufs {
				if x == b {
					id = i
				}
			}
			w.Tag("rb-reuse")
		} else {
			for i, x := range s.bufs {
				if x == b { // a buffer we know came back without a recorded Put
					id = i
				}
			}
			if id >= 0 && s.disc {
				w.Fail("rbget", "unrecorded-return", "the pool handed out a known ring buffer that is not a recorded donation")
			}
			id = len(s.bufs)
			s.bufs = append(s.bufs, b)
		}
		excl := s.unheld(id)
		w.Op(tr.L("rbget", tr.I(c), tr.I(choice)))
		w.Obs(tr.L("rbget", tr.I(id), tr.I(b.Buffered()), tr.B(excl)))
		w.Hist("rbget")
		if s.disc {
			if !b.IsEmpty() || b.Buffered() != 0 {
				w.Fail("rbget", fmt.Sprintf("nonempty buffered=%d", b.Buffered()), "a ring buffer obtained from the pool is not empty")
			}
			if !excl {
				w.Fail("rbget", "shared", "a ring buffer obtained from the pool is still held by another holder")
			}
		}
		s.held = append([]rbHeld{{c, id}}, s.held...)
	case "rbmk":
		c := op.Int(0)
		w.Op(tr.L("rbmk", tr.I(c)))
		id := len(s.bufs)
		s.bufs = append(s.bufs, ring.New(0))
		s.held = append([]rbHeld{{c, id}}, s.held...)
		w.Obs(tr.L("rbmk", tr.I(id)))
	case "rbuse":
		c, id, n := op.Int(0), op.Int(1), op.Int(2)
		w.Op(tr.L("rbuse", tr.I(c), tr.I(id), tr.I(n)))
		own := s.holds(c, id) >= 0
		if !own {
			s.disc = false
			w.Tag("undisciplined")
		}
		if id >= 0 && id < len(s.bufs) {
			b := s.bufs[id]
			tr.Guard(func() {
				b.Reset()
				if n > 0 {
					_, _ = b.Write(make([]byte, n))
				}
			})
			if b.Cap() > 64 {
				w.Tag("rb-grown")
			}
		}
		w.Obs(tr.L("rbuse", tr.B(own)))
	case "rbput":
		c, id := op.Int(0), op.Int(1)
		i := s.holds(c, id)
		disc := i >= 0
		if !disc {
			s.disc = false
			w.Tag("undisciplined")
		} else {
			s.held = append(s.held[:i:i], s.held[i+1:]...)
		}
		kept, after := true, 0
		if id >= 0 && id < len(s.bufs) {
			b := s.bufs[id]
			mx := s.pool.VerifMaxSize()
			kept = mx == 0 || b.Cap() <= mx
			s.pool.Put(b)
			after = b.Buffered()
			if kept {
				s.mirror = append(s.mirror, rbDonated{s.nput, b})
			} else {
				w.Tag("rb-dropped")
			}
		}
		s.nput++
		w.Op(tr.L("rbput", tr.I(c), tr.I(id), tr.B(kept)))
		w.Obs(tr.L("rbput", tr.B(disc), tr.I(after)))
		w.Hist("rbput")
	case "rbgc":
		n := op.Int(0)
		w.Op(tr.L("rbgc", tr.I(n)))
		for i := 0; i < n; i++ {
			runtime.GC()
		}
		if n >= 2 {
			s.mirror = nil
		}
		w.Tag("gc")
	}
}
