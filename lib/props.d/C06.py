LOOP_SWAP = ["eventloop_unix.go", "connection_unix.go", "connection_linux.go", "acceptor_unix.go",
             "listener_unix.go", "pkg/netpoll/poller_epoll_default.go", "pkg/io/io_linux.go",
             "pkg/socket/sock_cloexec.go", "pkg/socket/fd_unix.go"]

def _c03_driver():
    # "a loop with a queued shutdown task eventually runs it" is C03's guarantee, which the C06 theorems assume:
    # the check of C06 therefore also runs C03's wake-up correspondence on the default poller (added after a
    # seeded change to Polling's self re-wake condition made Run hang and only C03 reported it)
    import importlib.util, os
    sp = importlib.util.spec_from_file_location("c03props", os.path.join(os.path.dirname(os.path.abspath(__file__)), "C03.py"))
    m = importlib.util.module_from_spec(sp)
    sp.loader.exec_module(m)
    d = dict([x for x in m.PROP["drivers"] if x["cmd"] == "drv-wakeup"][0])
    d["variant"] = "wakeup"
    d["sites"] = [".*"]
    return d


PROP = dict(
    drivers=[_c03_driver(),
             dict(cmd="drv-engine", family="engine", netns=True, unix_swap=LOOP_SWAP, args=["-focus", "shutdown"]),
             # one loop's share of shutdown as the loop-family driver exercises it (Shutdown actions from every callback,
             # the closing sweep with handlers that write or close inside OnClose, injected I/O failures), judged here only
             # by the shutdown-related oracles; added by the orchestrator after a seeded change (second OnClose from a
             # failing write inside OnClose during the sweep) was caught by C04 but not by this check
             dict(cmd="drv-loop", family="loop", variant="sweep", shrink=False, netns=True, confirm=True, args=["-focus", "fault", "-n", "30"],
                  sites=["^lifecycle$", "^shutdown$", "^loop-stuck$", "^engine-start$", "^fd-leak$"],
                  unix_swap=LOOP_SWAP, timeout=dict(quick=600, thorough=3000))],
    rule="a case is one engine life on the REAL engine built from the current tree: configuration sampled from {tcp, unix, udp} x "
         "{1, 2, 4 loops} x {reactor, reuse-port} x {LT, ET} x {ticker on/off} x {1, 2 listeners} (+ Client with 1-2 loops), 0-4 "
         "connections with some traffic, then one SOURCE of shutdown (Engine.Stop live/expired, gnet.Stop, Shutdown returned from "
         "OnOpen / OnTraffic / OnClose after a peer close / OnClose after a Close action / OnTraffic with a failing write / OnTick / a "
         "datagram's OnTraffic / OnBoot, Client.Stop) at one MOMENT (idle; a callback of a connection in progress, pinned; a connection "
         "being opened, pinned; cancelled and inside OnShutdown with loops still serving and accepting, pinned; every loop exited and "
         "Wait returned but inShutdown not yet set, pinned at the first close of closeEventLoops; ticker inside OnTick), then peers poke "
         "the former engine and calls are made after the return; observables = callbacks per thread, Run's result, hidden flags and "
         "CountConnections at probes, predicted by the extracted model from the same ops; direct oracle: Run returns nil within 3 s of "
         "the request, every opened connection has exactly one OnClose before the return, OnShutdown once iff started, no callback "
         "after the return; non-trivial = a shutdown source and a moment were exercised; distinct by hash of the op lines",
    trusted=["harness/shim/vunix (x/sys/unix wrappers, import-swapped into scratch copies of the listed gnet files); used for pause "
             "points (pin a thread at a system call), write-failure injection and poller idleness, not for results",
             "harness/export/engine_export.go (read-only access to the engine's cancel / inShutdown flags and loop count; setter of the "
             "package variable shutdownPollInterval)",
             "the quiescence detection of drv-engine (an op's window closes when every foreseeable consequence has been "
             "seen and nothing has happened for 2.5 ms): a late event would show up as a correspondence failure, never as agreement"],
    assumptions=["context.WithCancel, errgroup.Group.Wait, sync.Map, channels and the ants worker pool behave as documented (modelled as "
                 "a cancel flag, a join on the loop/ticker threads, a presence bit, a one-shot signal, a spawned thread)",
                 "the wake-up guarantee of C03: a polling loop with a queued task eventually runs it (a loop with a non-empty queue is enabled)",
                 "sync/atomic is sequentially consistent: an interleaving of the modelled synchronisation operations is the unit of concurrency",
                 "kernel failures of epoll_create1/eventfd/epoll_ctl during start are not part of THIS model (the start sequence with those failures is Model/Start.v, checked under C07); failures of accept (other than the fatal-error exit) and of the "
                 "worker pool's Submit are not modelled",
                 "user callbacks terminate; the scheduler is weakly fair (needed to turn 'no stuck state + decreasing measure' into termination)"],
)
