(* Executable model of one gnet event loop on Linux: connection_unix.go,
   connection_linux.go (processIO), eventloop_unix.go, the accept paths of
   acceptor_unix.go, the task-queue part of Poller.Trigger/Polling, and
   reactor dispatch.  The kernel, the event handler and other goroutines are
   the *environment*: their choices are read from the input stream (`op`
   lines), the loop's visible behaviour is written to the output stream (`obs`
   lines): system calls issued by the loop thread, callbacks, and every value
   the handler sees.

   inbound/outbound buffers are FIFO byte lists (justified by C09-C11); the
   registry is a finite map fd -> connection (C14); the two task queues are
   sequential FIFO lists (C13) with the wake-up flag (C03 treats the
   fine-grained protocol).  No proofs in this file. *)
From GV Require Export Lib.Trace.
From Coq Require Import Lia.
Open Scope string_scope.
Open Scope list_scope.
Open Scope Z_scope.

(* ------------------------------------------------------------------ *)
(* state *)

Inductive action := ANone | AClose | AShutdown.

Record conn := mkConn {
  c_fd : Z;
  c_opened : bool;
  c_eof : bool;
  c_in : list Z;        (* inboundBuffer *)
  c_out : list Z;       (* outboundBuffer *)
  c_buf : list Z;       (* c.buffer: window of the loop's read buffer *)
  c_udp : bool;         (* isDatagram *)
  c_remote : bool;      (* c.remote != nil *)
}.

Inductive task :=
| TRegister (cid : Z) (cb : bool)          (* el.register, with connWithCallback or not *)
| TAsyncWrite (cid : Z) (data : list Z) (cb : bool)
| TAsyncWritev (cid : Z) (segs : list (list Z)) (cb : bool)
| TWake (cid : Z) (cb : bool)
| TClose (cid : Z) (cb : bool)
| TRead0 (cid : Z)
| TWrite0 (cid : Z)
| TExec                                     (* EventLoop.Execute runnable *)
| TShutdown.                                (* returns ErrEngineShutdown *)

Record lstate := mkL {
  l_et : bool;
  l_chunk : Z;
  l_bufcap : Z;                 (* len(el.buffer) *)
  l_efd : Z;
  l_thr : Z;                    (* highPriorityEventsThreshold *)
  l_maxlow : Z;                 (* MaxAsyncTasksAtOneTime *)
  l_listeners : list (Z * bool);  (* listener fd, is_udp *)
  l_conns : list (Z * conn);    (* cid -> conn, every connection ever created *)
  l_reg : list (Z * Z);         (* registry: fd -> cid *)
  l_urgent : list task;
  l_low : list task;
  l_flag : bool;                (* wakeupCall *)
  l_next : Z;                   (* next cid *)
}.

(* The history of a run: inputs consumed and outputs produced, interleaved in the
   order in which they happened (kept reversed: newest first). *)
Inductive ev := EIn (l : line) | EOut (l : line).

Record world := mkW {
  st : lstate;
  inp : list line;
  log : list ev;                (* reversed *)
  halt : bool;
}.

(* Output lines named "g" are ghost markers: they document what the loop did in terms
   the specifications speak about (bytes submitted / handed to the kernel / delivered),
   and are not part of the observable output compared with the implementation. *)
Definition is_ghost (l : line) : bool := String.eqb (fst l) "g".

Definition out_of (lg : list ev) : list line :=
  flat_map (fun e => match e with EOut l => if is_ghost l then [] else [l] | EIn _ => [] end) lg.
Definition in_of (lg : list ev) : list line :=
  flat_map (fun e => match e with EIn l => [l] | EOut _ => [] end) lg.

Inductive res := RNil | RErr | RShutdown | RAccept.

(* ------------------------------------------------------------------ *)
(* small helpers *)

Definition zlen {A} (l : list A) : Z := Z.of_nat (List.length l).
Definition ztake {A} (n : Z) (l : list A) : list A := firstn (Z.to_nat n) l.
Definition zdrop {A} (n : Z) (l : list A) : list A := skipn (Z.to_nat n) l.

Fixpoint alookup {A} (k : Z) (m : list (Z * A)) : option A :=
  match m with
  | [] => None
  | (k', v) :: r => if k =? k' then Some v else alookup k r
  end.

Fixpoint aremove {A} (k : Z) (m : list (Z * A)) : list (Z * A) :=
  match m with
  | [] => []
  | (k', v) :: r => if k =? k' then aremove k r else (k', v) :: aremove k r
  end.

Definition aset {A} (k : Z) (v : A) (m : list (Z * A)) : list (Z * A) := (k, v) :: aremove k m.

Definition fd_in_use (s : lstate) (fd : Z) : bool :=
  match alookup fd (l_reg s) with Some _ => true | None => false end.

Definition dummy_conn : conn := mkConn (-1) false false [] [] [] false false.

Definition getc (s : lstate) (cid : Z) : conn :=
  match alookup cid (l_conns s) with Some c => c | None => dummy_conn end.

Definition setc (s : lstate) (cid : Z) (c : conn) : lstate :=
  mkL (l_et s) (l_chunk s) (l_bufcap s) (l_efd s) (l_thr s) (l_maxlow s) (l_listeners s)
      (aset cid c (l_conns s)) (l_reg s) (l_urgent s) (l_low s) (l_flag s) (l_next s).

Definition set_reg (s : lstate) (r : list (Z * Z)) : lstate :=
  mkL (l_et s) (l_chunk s) (l_bufcap s) (l_efd s) (l_thr s) (l_maxlow s) (l_listeners s)
      (l_conns s) r (l_urgent s) (l_low s) (l_flag s) (l_next s).

Definition set_queues (s : lstate) (u lo : list task) (f : bool) : lstate :=
  mkL (l_et s) (l_chunk s) (l_bufcap s) (l_efd s) (l_thr s) (l_maxlow s) (l_listeners s)
      (l_conns s) (l_reg s) u lo f (l_next s).

Definition set_next (s : lstate) (n : Z) : lstate :=
  mkL (l_et s) (l_chunk s) (l_bufcap s) (l_efd s) (l_thr s) (l_maxlow s) (l_listeners s)
      (l_conns s) (l_reg s) (l_urgent s) (l_low s) (l_flag s) n.

Definition with_st (w : world) (s : lstate) : world := mkW s (inp w) (log w) (halt w).
Definition wc (w : world) (cid : Z) : conn := getc (st w) cid.
Definition wsetc (w : world) (cid : Z) (c : conn) : world := with_st w (setc (st w) cid c).

Definition c_set_in (c : conn) (x : list Z) := mkConn (c_fd c) (c_opened c) (c_eof c) x (c_out c) (c_buf c) (c_udp c) (c_remote c).
Definition c_set_out (c : conn) (x : list Z) := mkConn (c_fd c) (c_opened c) (c_eof c) (c_in c) x (c_buf c) (c_udp c) (c_remote c).
Definition c_set_buf (c : conn) (x : list Z) := mkConn (c_fd c) (c_opened c) (c_eof c) (c_in c) (c_out c) x (c_udp c) (c_remote c).
Definition c_set_opened (c : conn) (b : bool) := mkConn (c_fd c) b (c_eof c) (c_in c) (c_out c) (c_buf c) (c_udp c) (c_remote c).
Definition c_set_eof (c : conn) (b : bool) := mkConn (c_fd c) (c_opened c) b (c_in c) (c_out c) (c_buf c) (c_udp c) (c_remote c).

(* conn.release *)
Definition c_release (c : conn) : conn :=
  if c_udp c then mkConn (c_fd c) false false (c_in c) (c_out c) [] (c_udp c) (c_remote c)
  else mkConn (c_fd c) false false [] [] [] (c_udp c) false.

(* ------------------------------------------------------------------ *)
(* output / input *)

Definition emit (l : line) (w : world) : world :=
  if halt w then w else mkW (st w) (inp w) (EOut l :: log w) (halt w).

Definition ghost (what : string) (cid : Z) (bs : list Z) (w : world) : world :=
  emit ("g", [ASym what; AInt cid; ABytes bs]) w.

Definition stop (w : world) : world := mkW (st w) (inp w) (log w) true.

Definition desync (what : string) (w : world) : world :=
  stop (emit (obs "desync" [ASym what]) w).

(* Poller.Trigger: choice of queue and wake-up flag.  `internal` = called on the
   loop thread (the eventfd write is then a loop-thread system call). *)
Definition enqueue (s : lstate) (is_low : bool) (t : task) : lstate :=
  if is_low && (zlen (l_urgent s) >=? l_thr s)
  then set_queues s (l_urgent s) (l_low s ++ [t]) (l_flag s)
  else set_queues s (l_urgent s ++ [t]) (l_low s) (l_flag s).

Definition set_flag (s : lstate) (f : bool) : lstate := set_queues s (l_urgent s) (l_low s) f.

Definition segs_of (args : list arg) : list (list Z) :=
  flat_map (fun a => match a with ABytes b => [b] | _ => [] end) args.

Definition flag_of (a : arg) : bool := match a with AInt 1 => true | _ => false end.

(* requests issued by other goroutines: `async <kind> <cid> ...` / `accepted <fd> <udp>` / `stop` *)
Definition apply_async (s : lstate) (l : line) : option lstate :=
  let ext (s : lstate) (is_low : bool) (t : task) := set_flag (enqueue s is_low t) true in
  match l with
  | ("async", ASym k :: AInt cid :: rest) =>
      if sym_eqb k "write" then
        match rest with
        | [ABytes d; cb] => Some (ext s false (TAsyncWrite cid d (flag_of cb)))
        | _ => None end
      else if sym_eqb k "writev" then
        match rest with
        | cb :: segs => Some (ext s false (TAsyncWritev cid (segs_of segs) (flag_of cb)))
        | _ => None end
      else if sym_eqb k "wake" then
        match rest with [cb] => Some (ext s true (TWake cid (flag_of cb))) | _ => None end
      else if sym_eqb k "close" then
        match rest with [cb] => Some (ext s true (TClose cid (flag_of cb))) | _ => None end
      else if sym_eqb k "exec" then Some (ext s true TExec)
      else None
  | ("accepted", [AInt fd]) =>
      (* main reactor accepted a socket and triggered el.register on this loop *)
      let cid := l_next s in
      let c := mkConn fd false false [] [] [] false true in
      Some (ext (set_next (setc s cid c) (cid + 1)) false (TRegister cid false))
  | ("enroll", [AInt fd; AInt udp]) =>
      (* client Enroll / Dial: register task with callback, low priority *)
      let cid := l_next s in
      let c := mkConn fd false false [] [] [] (udp =? 1) false in
      Some (ext (set_next (setc s cid c) (cid + 1)) true (TRegister cid true))
  | ("dial", [AInt fd; AInt udp]) =>
      (* Client.Dial / Client.Enroll: register task with callback, HIGH priority *)
      let cid := l_next s in
      let c := mkConn fd false false [] [] [] (udp =? 1) false in
      Some (ext (set_next (setc s cid c) (cid + 1)) false (TRegister cid true))
  | ("stop", []) => Some (ext s false TShutdown)
  | _ => None
  end.

Definition is_pick (l : line) : bool :=
  match l with ("pick", _) => true | _ => false end.

(* next input line for the loop; requests of other goroutines met on the way are applied *)
Fixpoint pull_from (picks : bool) (s : lstate) (lg : list ev) (i : list line)
  : lstate * list ev * option line * list line :=
  match i with
  | [] => (s, lg, None, [])
  | l :: r => match apply_async s l with
              | Some s' => pull_from picks s' (EIn l :: lg) r
              | None => if negb picks && is_pick l then pull_from picks s lg r
                        else (s, EIn l :: lg, Some l, r)
              end
  end.

Definition pull_gen (picks : bool) (w : world) : option line * world :=
  if halt w then (None, w) else
  match pull_from picks (st w) (log w) (inp w) with
  | (s, lg, None, r) => (None, mkW s r lg true)          (* trace ended here *)
  | (s, lg, Some l, r) => (Some l, mkW s r lg false)
  end.

(* `pick` lines (iteration order of closeConns) only matter to close_conns *)
Definition pull (w : world) : option line * world := pull_gen false w.

(* kernel result of the system call just issued *)
Inductive kres := KOk (n : Z) (extra : list arg) | KErr (e : string) | KNone.

Definition sysret (name : string) (w : world) : kres * world :=
  match pull w with
  | (None, w') => (KNone, w')
  | (Some ("r", ASym nm :: AInt n :: rest), w') =>
      if negb (sym_eqb nm name) then (KNone, desync "syscall-name" w')
      else if n <? 0 then
        match rest with
        | ASym e :: _ => (KErr e, w')
        | _ => (KErr "err", w')
        end
      else (KOk n rest, w')
  | (Some _, w') => (KNone, desync "expected-r" w')
  end.

Definition sys (name : string) (args : list arg) (w : world) : kres * world :=
  sysret name (emit (obs "sys" (ASym name :: args)) w).

Definition is_eagain (e : string) := sym_eqb e "eagain".

(* a data-writing system call (write or writev) on a connection:
   returns the kernel result; `offered` bytes are predicted after the result line
   tells how many bytes of `src` were offered (the iov shape is not modelled). *)
Definition sys_wr (cid : Z) (fd : Z) (src : list Z) (exact : bool) (w : world) : kres * world :=
  let w1 := emit (obs "sys" [ASym "wr"; AInt fd]) w in
  match pull w1 with
  | (None, w') => (KNone, w')
  | (Some ("r", ASym nm :: AInt off :: AInt n :: rest), w') =>
      if negb (sym_eqb nm "wr") then (KNone, desync "syscall-name" w') else
      (* kernel contract: it accepts at most what was offered, and what is offered comes from src *)
      if (off <? 0) || (zlen src <? off) || (off <? n) then (KNone, desync "kernel-contract-wr" w') else
      let offered := if exact then src else ztake off src in
      let w2 := emit (obs "wdata" [ABytes offered]) w' in
      if n <? 0 then
        match rest with
        | ASym e :: _ => (KErr e, if is_eagain e then ghost "eagain" cid [] w2 else ghost "fail" cid [] w2)
        | _ => (KErr "err", ghost "fail" cid [] w2)
        end
      else (KOk n [], ghost "hand" cid (ztake n offered) w2)
  | (Some _, w') => (KNone, desync "expected-r-wr" w')
  end.

(* ------------------------------------------------------------------ *)
(* Poller.Trigger called on the loop thread *)

Fixpoint efd_write (fuel : nat) (w : world) : res * world :=
  match fuel with
  | O => (RErr, desync "fuel" w)
  | S f =>
    match sys "write" [AInt (l_efd (st w))] w with
    | (KErr e, w1) =>
        if is_eagain e then
          let '(_, w2) := sys "read" [AInt (l_efd (st w1))] w1 in efd_write f w2
        else (RErr, w1)
    | (KOk _ _, w1) => (RNil, w1)
    | (KNone, w1) => (RNil, w1)
    end
  end.

Definition trigger (is_low : bool) (t : task) (w : world) : res * world :=
  let s := enqueue (st w) is_low t in
  if l_flag s then (RNil, with_st w s)
  else efd_write (S (List.length (inp w))) (with_st w (set_flag s true)).

(* ------------------------------------------------------------------ *)
(* epoll registration *)

Definition EV_IN := 1.  Definition EV_PRI := 2.  Definition EV_OUT := 4.  Definition EV_ERR := 8.
Definition EV_HUP := 16.  Definition EV_RDHUP := 8192.

Definition epctl (op : string) (fd : Z) (rw : bool) (et : bool) (w : world) : res * world :=
  match sys "epctl" [ASym op; AInt fd; bool_arg rw; bool_arg et] w with
  | (KErr _, w') => (RErr, w')
  | (_, w') => (RNil, w')
  end.

(* ------------------------------------------------------------------ *)
(* the connection and loop procedures.  `fuel` bounds the nesting/iteration;
   every iteration consumes at least one input line, and the top level passes
   the length of the input. *)

Definition action_of (a : arg) : action :=
  match a with
  | ASym s => if sym_eqb s "close" then AClose else if sym_eqb s "shutdown" then AShutdown else ANone
  | _ => ANone
  end.

Definition err_sym (is_nil : bool) : arg := ASym (if is_nil then "nil" else "err").

(* iovMax of eventloop_unix.go (checked against the source by genloop) *)
Definition iov_max : nat := 1024.

(* the slice arithmetic of conn.writev after a partial writev(2) *)
Fixpoint drop_sent (sent : Z) (segs : list (list Z)) : list (list Z) :=
  match segs with
  | [] => []
  | s :: r => if sent <? zlen s then zdrop sent s :: r else drop_sent (sent - zlen s) r
  end.

Section Procs.

(* el.close is needed by conn.write (deferred close) and the handler needs conn.write:
   everything below is one recursion on fuel. *)

Fixpoint el_close (fuel : nat) (cid : Z) (err_nil : bool) (w : world) {struct fuel} : res * world :=
  match fuel with
  | O => (RErr, desync "fuel" w)
  | S f =>
    let c := wc w cid in
    if negb (c_opened c) || (match alookup (c_fd c) (l_reg (st w)) with None => true | Some _ => false end)
    then (RNil, w)
    else
      let w1 := with_st w (set_reg (st w) (aremove (c_fd c) (l_reg (st w)))) in
      let w2 := emit (obs "cb" [ASym "close"; AInt cid; err_sym err_nil]) w1 in
      let '(act, _, w3) := handler f cid w2 in
      let w4 := close_drain f cid w3 in
      let c4 := wc w4 cid in
      let w5 := wsetc w4 cid (c_release c4) in
      let '(r0, w6) := epctl "del" (c_fd c4) false false w5 in
      let '(k1, w7) := sys "close" [AInt (c_fd c4)] w6 in
      let bad := match r0, k1 with RNil, KErr _ => true | RNil, _ => false | _, _ => true end in
      if bad then (RErr, w7)
      else match act with
           | ANone => (RNil, w7)
           | AClose => el_close f cid true w7
           | AShutdown => (RShutdown, w7)
           end
  end

(* the loop in el.close that tries to flush the outbound buffer *)
with close_drain (fuel : nat) (cid : Z) (w : world) {struct fuel} : world :=
  match fuel with
  | O => desync "fuel" w
  | S f =>
    let c := wc w cid in
    match c_out c with
    | [] => w
    | _ =>
      match sys_wr cid (c_fd c) (c_out c) false w with
      | (KOk n _, w1) =>
          let c1 := wc w1 cid in
          close_drain f cid (wsetc w1 cid (c_set_out c1 (zdrop n (c_out c1))))
      | (_, w1) => w1
      end
    end
  end

(* conn.write: returns (n, err_nil) *)
with conn_write (fuel : nat) (cid : Z) (data : list Z) (w : world) {struct fuel} : (Z * bool) * world :=
  match fuel with
  | O => ((0, false), desync "fuel" w)
  | S f =>
    let c := wc w cid in
    let n := zlen data in
    if negb (c_opened c) then ((0, false), w) else
    let w := ghost "sub" cid data w in
    match c_out c with
    | _ :: _ => ((n, true), wsetc w cid (c_set_out c (c_out c ++ data)))
    | [] =>
      let '(rn, ok, w1) := conn_write_loop f cid data n w in
      if ok then ((rn, true), w1)
      else let '(_, w2) := el_close f cid false w1 in ((rn, false), w2)
    end
  end

with conn_write_loop (fuel : nat) (cid : Z) (data : list Z) (n : Z) (w : world) {struct fuel} : (Z * bool) * world :=
  match fuel with
  | O => ((0, false), desync "fuel" w)
  | S f =>
    let c := wc w cid in
    let et := l_et (st w) in
    match sys_wr cid (c_fd c) data true w with
    | (KErr e, w1) =>
        if is_eagain e then
          let c1 := wc w1 cid in
          let w2 := wsetc w1 cid (c_set_out c1 (c_out c1 ++ data)) in
          if et then ((n, true), w2)
          else let '(r, w3) := epctl "mod" (c_fd c) true et w2 in
               ((n, match r with RNil => true | _ => false end), w3)
        else ((0, false), w1)
    | (KOk sent _, w1) =>
        let rest := zdrop sent data in
        match rest with
        | [] => ((n, true), w1)
        | _ =>
          if et then conn_write_loop f cid rest n w1
          else
            let c1 := wc w1 cid in
            let w2 := wsetc w1 cid (c_set_out c1 (c_out c1 ++ rest)) in
            let '(r, w3) := epctl "mod" (c_fd c) true et w2 in
            ((n, match r with RNil => true | _ => false end), w3)
        end
    | (KNone, w1) => ((n, true), w1)
    end
  end

(* conn.writev: at most iov_max segments per writev(2) *)
with conn_writev_loop (fuel : nat) (cid : Z) (segs : list (list Z)) (n : Z) (w : world) {struct fuel} : (Z * bool) * world :=
  match fuel with
  | O => ((0, false), desync "fuel" w)
  | S f =>
    let c := wc w cid in
    let et := l_et (st w) in
    let iov := firstn iov_max segs in
    match sys_wr cid (c_fd c) (List.concat iov) true w with
    | (KErr e, w1) =>
        if is_eagain e then
          let c1 := wc w1 cid in
          let w2 := wsetc w1 cid (c_set_out c1 (c_out c1 ++ List.concat segs)) in
          if et then ((n, true), w2)
          else let '(r, w3) := epctl "mod" (c_fd c) true et w2 in
               ((n, match r with RNil => true | _ => false end), w3)
        else ((0, false), w1)
    | (KOk sent _, w1) =>
        let rest := drop_sent sent segs in
        match List.concat rest with
        | [] => ((n, true), w1)
        | _ =>
          if et then conn_writev_loop f cid rest n w1
          else
            let c1 := wc w1 cid in
            let w2 := wsetc w1 cid (c_set_out c1 (c_out c1 ++ List.concat rest)) in
            let '(r, w3) := epctl "mod" (c_fd c) true et w2 in
            ((n, match r with RNil => true | _ => false end), w3)
        end
    | (KNone, w1) => ((n, true), w1)
    end
  end

(* conn.writev *)
with conn_writev (fuel : nat) (cid : Z) (segs : list (list Z)) (w : world) {struct fuel} : (Z * bool) * world :=
  match fuel with
  | O => ((0, false), desync "fuel" w)
  | S f =>
    let c := wc w cid in
    let data := List.concat segs in
    let n := zlen data in
    if negb (c_opened c) then ((0, false), w) else
    let w := ghost "sub" cid data w in
    match c_out c with
    | _ :: _ => ((n, true), wsetc w cid (c_set_out c (c_out c ++ data)))
    | [] =>
      match segs with
      | [] =>      (* gio.Writev with no segments performs no system call *)
          ((n, true), w)
      | _ =>
      let '(rn, ok, w1) := conn_writev_loop f cid segs n w in
      if ok then ((rn, true), w1)
      else let '(_, w2) := el_close f cid false w1 in ((rn, false), w2)
      end
    end
  end

(* el.write: flush the outbound buffer *)
with el_write (fuel : nat) (cid : Z) (sent : Z) (w : world) {struct fuel} : res * world :=
  match fuel with
  | O => (RErr, desync "fuel" w)
  | S f =>
    let c := wc w cid in
    let et := l_et (st w) in
    if negb (c_opened c) then (RNil, w) else
    match c_out c with
    | [] => (RNil, w)
    | _ =>
      match sys_wr cid (c_fd c) (c_out c) false w with
      | (KNone, w1) => (RNil, w1)
      | (KErr e, w1) =>
          if is_eagain e then (RNil, w1) else el_close f cid false w1
      | (KOk n _, w1) =>
          let c1 := wc w1 cid in
          let out' := zdrop n (c_out c1) in
          let w2 := wsetc w1 cid (c_set_out c1 out') in
          let sent' := sent + n in
          match out' with
          | [] => if et then (RNil, w2) else epctl "mod" (c_fd c) false false w2
          | _ =>
            if et then
              if sent' <? l_chunk (st w2) then el_write f cid sent' w2
              else trigger false (TWrite0 cid) (ghost "rearm-write" cid [] w2)
            else (RNil, w2)
          end
      end
    end
  end

(* the handler: a script of API calls read from the input until `hret`.
   Returns the action, the OnOpen reply (if any) and the world. *)
with handler (fuel : nat) (cid : Z) (w : world) {struct fuel} : (action * option (list Z)) * world :=
  match fuel with
  | O => ((ANone, None), desync "fuel" w)
  | S f =>
    match pull w with
    | (None, w1) => ((ANone, None), w1)
    | (Some ("hret", a :: rest), w1) =>
        ((action_of a, match rest with ABytes b :: _ => Some b | _ => None end), w1)
    | (Some ("h", ASym call :: args), w1) =>
        let w2 := hcall f cid call args w1 in handler f cid w2
    | (Some _, w1) => ((ANone, None), desync "expected-h" w1)
    end
  end

with hcall (fuel : nat) (cid : Z) (call : string) (args : list arg) (w : world) {struct fuel} : world :=
  match fuel with
  | O => desync "fuel" w
  | S f =>
  let c := wc w cid in
  let total := zlen (c_in c) + zlen (c_buf c) in
  let hr (vals : list arg) (w : world) := emit (obs "hr" (AInt cid :: ASym call :: vals)) w in
  (* the connection the call targets: `on <cid'>` prefix is handled by the caller *)
  if sym_eqb call "read" then
    match args with
    | [AInt n] =>
        (* conn.Read into a buffer of n bytes *)
        match c_in c with
        | [] =>
            let got := ztake n (c_buf c) in
            let w1 := wsetc w cid (c_set_buf c (zdrop n (c_buf c))) in
            hr [ABytes got; ASym (if (zlen got =? 0) && (0 <? n) then "short" else "nil")] w1
        | _ =>
            let a := ztake n (c_in c) in
            let in' := zdrop n (c_in c) in
            if zlen a =? n then hr [ABytes a; ASym "nil"] (wsetc w cid (c_set_in c in'))
            else
              let m := n - zlen a in
              let b := ztake m (c_buf c) in
              hr [ABytes (a ++ b); ASym "nil"]
                 (wsetc w cid (c_set_buf (c_set_in c in') (zdrop m (c_buf c))))
        end
    | _ => desync "h-read-args" w
    end
  else if sym_eqb call "next" then
    match args with
    | [AInt n] =>
        if n >? total then hr [ABytes []; ASym "short"] w
        else
          let n := if n <=? 0 then total else n in
          let all := c_in c ++ c_buf c in
          let got := ztake n all in
          let in' := zdrop n (c_in c) in
          let m := n - zlen (c_in c) in
          let buf' := if m >? 0 then zdrop m (c_buf c) else c_buf c in
          hr [ABytes got; ASym "nil"] (wsetc w cid (c_set_buf (c_set_in c in') buf'))
    | _ => desync "h-next-args" w
    end
  else if sym_eqb call "peek" then
    match args with
    | [AInt n] =>
        if n >? total then hr [ABytes []; ASym "short"] w
        else
          let n := if n <=? 0 then total else n in
          hr [ABytes (ztake n (c_in c ++ c_buf c)); ASym "nil"] w
    | _ => desync "h-peek-args" w
    end
  else if sym_eqb call "discard" then
    match args with
    | [AInt n] =>
        if (n >=? total) || (n <=? 0) then
          hr [AInt total] (wsetc w cid (c_set_buf (c_set_in c []) []))
        else
          match c_in c with
          | [] => hr [AInt n] (wsetc w cid (c_set_buf c (zdrop n (c_buf c))))
          | _ =>
            let inl := zlen (c_in c) in
            if n <? inl then hr [AInt n] (wsetc w cid (c_set_in c (zdrop n (c_in c))))
            else hr [AInt n] (wsetc w cid (c_set_buf (c_set_in c []) (zdrop (n - inl) (c_buf c))))
          end
    | _ => desync "h-discard-args" w
    end
  else if sym_eqb call "writeto" then
    (* WriteTo a writer that accepts at most `lim` more bytes in total (lim < 0: everything) and
       reports an error when it cannot take a whole Write *)
    let lim := match args with AInt n :: _ => n | _ => -1 end in
    if (lim <? 0) || (total <=? lim) then
      hr [ABytes (c_in c ++ c_buf c); AInt total; ASym "nil"]
         (wsetc w cid (c_set_buf (c_set_in c []) []))
    else if lim <? zlen (c_in c) then
      hr [ABytes (ztake lim (c_in c)); AInt lim; ASym "err"]
         (wsetc w cid (c_set_in c (zdrop lim (c_in c))))
    else
      let b := lim - zlen (c_in c) in
      hr [ABytes (c_in c ++ ztake b (c_buf c)); AInt lim; ASym "err"]
         (wsetc w cid (c_set_buf (c_set_in c []) (zdrop b (c_buf c))))
  else if sym_eqb call "inbuf" then hr [AInt total] w
  else if sym_eqb call "outbuf" then hr [AInt (zlen (c_out c))] w
  else if sym_eqb call "write" then
    match args with
    | [ABytes d] =>
        if c_udp c then
          if negb (c_remote c) && negb (c_opened c) then hr [AInt 0; ASym "err"] w else
          let '(k, w1) := sys "sendto" [AInt (c_fd c); ABytes d; bool_arg (c_remote c)] w in
          match k with
          | KErr _ => hr [AInt 0; ASym "err"] w1
          | _ => hr [AInt (zlen d); ASym "nil"] w1
          end
        else
          let '(n, ok, w1) := conn_write f cid d w in hr [AInt n; err_sym ok] w1
    | _ => desync "h-write-args" w
    end
  else if sym_eqb call "writev" then
    if c_udp c then hr [AInt 0; ASym "err"] w
    else let '(n, ok, w1) := conn_writev f cid (segs_of args) w in hr [AInt n; err_sym ok] w1
  else if sym_eqb call "flush" then
    if c_udp c then hr [ASym "nil"] w else
    if negb (c_opened c) then hr [ASym "err"] w else
    let '(r, w1) := el_write f cid 0 w in
    match r with
    | RNil =>
        let c1 := wc w1 cid in
        if negb (l_et (st w1)) && c_opened c1 && (match c_out c1 with [] => false | _ => true end) then
          let '(r2, w2) := epctl "mod" (c_fd c1) true false w1 in
          hr [ASym (match r2 with RNil => "nil" | _ => "err" end)] w2
        else hr [ASym "nil"] w1
    | RShutdown => hr [ASym "shutdown"] w1
    | _ => hr [ASym "err"] w1
    end
  else if sym_eqb call "readfrom" then
    match args with
    | [ABytes d] => hr [AInt (zlen d); ASym "nil"] (wsetc (ghost "sub" cid d w) cid (c_set_out c (c_out c ++ d)))
    | _ => desync "h-readfrom-args" w
    end
  else if sym_eqb call "asyncwrite" then
    match args with
    | [ABytes d; cb] =>
        if c_udp c then
          (* AsyncWrite on a datagram connection sends at once, without looking at `opened`
             (it may run on any goroutine): on a closed connected-UDP connection that is a send on
             a released descriptor -- marked, it is a recorded finding *)
          let w := if negb (c_remote c) && negb (c_opened c) then ghost "staleudp" cid [] w else w in
          let '(k, w1) := sys "sendto" [AInt (c_fd c); ABytes d; bool_arg (c_remote c)] w in
          let w2 := if flag_of cb then emit (obs "acb" [ASym "write"; AInt (-1); ASym "nil"]) w1 else w1 in
          hr [ASym (match k with KErr _ => "err" | _ => "nil" end)] w2
        else
          let '(r, w1) := trigger false (TAsyncWrite cid d (flag_of cb)) w in
          hr [ASym (match r with RNil => "nil" | _ => "err" end)] w1
    | _ => desync "h-asyncwrite-args" w
    end
  else if sym_eqb call "asyncwritev" then
    match args with
    | cb :: segs =>
        if c_udp c then hr [ASym "err"] w
        else
          let '(r, w1) := trigger false (TAsyncWritev cid (segs_of segs) (flag_of cb)) w in
          hr [ASym (match r with RNil => "nil" | _ => "err" end)] w1
    | _ => desync "h-asyncwritev-args" w
    end
  else if sym_eqb call "wake" then
    match args with
    | [cb] => let '(r, w1) := trigger true (TWake cid (flag_of cb)) w in
              hr [ASym (match r with RNil => "nil" | _ => "err" end)] w1
    | _ => desync "h-wake-args" w
    end
  else if sym_eqb call "close" then
    match args with
    | [cb] => let '(r, w1) := trigger true (TClose cid (flag_of cb)) w in
              hr [ASym (match r with RNil => "nil" | _ => "err" end)] w1
    | _ => desync "h-close-args" w
    end
  else if sym_eqb call "elclose" then
    (* EventLoop.Close(c) called directly from the callback; optional target cid *)
    let target := match args with [AInt t] => t | _ => cid end in
    let '(r, w1) := el_close f target true w in
    hr [ASym (match r with RNil => "nil" | RShutdown => "shutdown" | _ => "err" end)] w1
  else if sym_eqb call "on" then
    (* `h on <cid'> <call> args...` : act on another connection of this loop *)
    match args with
    | AInt t :: ASym call' :: args' =>
        (* script contract: a handler only holds connections that are open *)
        if c_opened (wc w t) then hcall f t call' args' w else desync "on-closed-target" w
    | _ => desync "h-on-args" w
    end
  else desync "h-unknown" w
  end.

(* el.read *)
Fixpoint el_read (fuel : nat) (cid : Z) (recv : Z) (w : world) {struct fuel} : res * world :=
  match fuel with
  | O => (RErr, desync "fuel" w)
  | S f =>
    let c := wc w cid in
    if negb (c_opened c) && (recv =? 0) then (RNil, w)
    else
    match sys "read" [AInt (c_fd c); AInt (l_bufcap (st w))] w with
    | (KNone, w1) => (RNil, w1)
    | (KErr e, w1) => if is_eagain e then (RNil, w1) else el_close (S f) cid false (ghost "fail" cid [] w1)
    | (KOk n extra, w1) =>
        if n =? 0 then el_close (S f) cid false (ghost "fail" cid [] w1)
        else
          let data := match extra with ABytes b :: _ => b | _ => [] end in
          (* kernel contract: read returns exactly n bytes, at most the buffer size *)
          if negb (zlen data =? n) || (l_bufcap (st w1) <? n) then (RErr, desync "kernel-contract-read" w1) else
          let recv' := recv + n in
          let c1 := wc w1 cid in
          let w2 := wsetc (ghost "del" cid data w1) cid (c_set_buf c1 data) in
          let w3 := emit (obs "cb" [ASym "traffic"; AInt cid]) w2 in
          let '(act, _, w4) := handler (S f) cid w3 in
          match act with
          | AClose => el_close (S f) cid true w4
          | AShutdown => (RShutdown, w4)
          | ANone =>
            let c4 := wc w4 cid in
            if negb (c_opened c4) then (RNil, w4) else   (* closed inside OnTraffic *)
            let w5 := wsetc w4 cid (c_set_buf (c_set_in c4 (c_in c4 ++ c_buf c4)) []) in
            let c5 := wc w5 cid in
            if c_eof c5 || (l_et (st w5) && (recv' <? l_chunk (st w5)))
            then el_read f cid recv' w5
            else if l_et (st w5) && (n =? l_bufcap (st w5))
                 then trigger true (TRead0 cid) (ghost "rearm-read" cid [] w5)
                 else (RNil, w5)
          end
    end
  end.

End Procs.

(* el.open *)
Definition el_open (fuel : nat) (cid : Z) (w : world) : res * world :=
  let c := wc w cid in
  let w1 := wsetc w cid (c_set_opened c true) in
  let w2 := emit (obs "cb" [ASym "open"; AInt cid]) w1 in
  let '(act, reply, w3) := handler fuel cid w2 in
  if negb (c_opened (wc w3 cid)) then      (* closed inside OnOpen *)
    match act with
    | AShutdown => (RShutdown, w3)
    | _ => (RNil, w3)                      (* handleAction: close of a closed connection is a no-op *)
    end
  else
  (* c.open(out) *)
  let '(ok, w4) :=
    match reply with
    | None => (true, w3)
    | Some data =>
      let c3 := wc w3 cid in
      let w3 := if c_udp c3 then w3 else ghost "sub" cid data w3 in
      if c_udp c3 && negb (c_remote c3) then
        match sys "sendto" [AInt (c_fd c3); ABytes data; bool_arg false] w3 with
        | (KErr _, w') => (false, w')
        | (_, w') => (true, w')
        end
      else if (match c_out c3 with [] => false | _ => true end) then
        (true, wsetc w3 cid (c_set_out c3 (c_out c3 ++ data)))
      else
        (fix open_loop (k : nat) (data : list Z) (w : world) : bool * world :=
           match k with
           | O => (false, desync "fuel" w)
           | S k' =>
             match data with
             | [] =>
               (* unix.Write is still called once with an empty slice *)
               match sys_wr cid (c_fd (wc w cid)) [] true w with
               | (KErr e, w') => if is_eagain e then (true, w') else (false, w')
               | (_, w') => (true, w')
               end
             | _ =>
             match sys_wr cid (c_fd (wc w cid)) data true w with
             | (KErr e, w') =>
                 if is_eagain e then
                   let c' := wc w' cid in (true, wsetc w' cid (c_set_out c' (c_out c' ++ data)))
                 else (false, w')
             | (KOk n _, w') =>
                 match zdrop n data with
                 | [] => (true, w')
                 | rest => open_loop k' rest w'
                 end
             | (KNone, w') => (true, w')
             end
             end
           end) (S (List.length (inp w3))) data w3
    end in
  if negb ok then el_close fuel cid false w4      (* the reply could not be written: close, report through OnClose *)
  else
    let c4 := wc w4 cid in
    let '(r5, w5) :=
      match c_out c4 with
      | _ :: _ => if l_et (st w4) then (RNil, w4) else epctl "mod" (c_fd c4) true false w4
      | [] => (RNil, w4)
      end in
    match r5 with
    | RNil =>
      match act with
      | ANone => (RNil, w5)
      | AClose => el_close fuel cid true w5
      | AShutdown => (RShutdown, w5)
      end
    | _ => el_close fuel cid false w5             (* write interest could not be registered: close *)
    end.

(* el.register0 *)
Definition el_register0 (fuel : nat) (cid : Z) (w : world) : res * world :=
  let c := wc w cid in
  let et := l_et (st w) in
  if fd_in_use (st w) (c_fd c) then (RErr, desync "kernel-contract-fd" w) else
  let '(r, w1) := epctl "add" (c_fd c) et et w in
  match r with
  | RNil =>
      let w2 := with_st w1 (set_reg (st w1) (aset (c_fd c) cid (l_reg (st w1)))) in
      if c_udp c && c_remote c then (RNil, w2) else el_open fuel cid w2
  | _ =>
      let '(_, w2) := sys "close" [AInt (c_fd c)] w1 in
      (RErr, wsetc w2 cid (c_release (wc w2 cid)))
  end.

(* el.wake *)
Definition el_wake (fuel : nat) (cid : Z) (w : world) : res * world :=
  let c := wc w cid in
  if negb (c_opened c) || (match alookup (c_fd c) (l_reg (st w)) with None => true | Some _ => false end)
  then (RNil, w)
  else
    let w1 := emit (obs "cb" [ASym "traffic"; AInt cid]) w in
    let '(act, _, w2) := handler fuel cid w1 in
    match act with
    | ANone => (RNil, w2)
    | AClose => el_close fuel cid true w2
    | AShutdown => (RShutdown, w2)
    end.

Definition has (ev mask : Z) : bool := negb (Z.land ev mask =? 0).

(* conn.processIO (Linux) *)
Definition process_io (fuel : nat) (cid : Z) (ev : Z) (w : world) : res * world :=
  let c := wc w cid in
  if has ev (EV_ERR + EV_HUP + EV_RDHUP) && negb (has ev (EV_IN + EV_PRI + EV_OUT)) then
    el_close fuel cid false (wsetc w cid (c_set_out c []))
  else
    let '(r1, w1) := if has ev (EV_OUT + EV_ERR + EV_HUP) then el_write fuel cid 0 w else (RNil, w) in
    match r1 with
    | RNil =>
      let '(r2, w2) := if has ev (EV_IN + EV_PRI + EV_ERR + EV_HUP) then el_read fuel cid 0 w1 else (RNil, w1) in
      match r2 with
      | RNil =>
        if has ev EV_RDHUP && c_opened (wc w2 cid) then
          if negb (has ev EV_IN) then el_close fuel cid false w2
          else el_read fuel cid 0 (wsetc w2 cid (c_set_eof (wc w2 cid) true))
        else (RNil, w2)
      | r => (r, w2)
      end
    | r => (r, w1)
    end.

(* el.readUDP on a listener socket (unconnected server socket) or a connected client socket *)
Definition el_read_udp (fuel : nat) (fd : Z) (is_listener : bool) (w : world) : res * world :=
  match sys "recvfrom" [AInt fd; AInt (l_bufcap (st w))] w with
  | (KNone, w1) => (RNil, w1)
  | (KErr e, w1) => if is_eagain e then (RNil, w1) else (RErr, w1)
  | (KOk n extra, w1) =>
      let data := match extra with ABytes b :: _ => b | _ => [] end in
      let src := match extra with _ :: a :: _ => [a] | _ => [] end in
      (* kernel contract: the result carries exactly the payload (n bytes, at most the buffer) and the source *)
      if negb (match extra with [ABytes _; _] => true | _ => false end) || negb (zlen data =? n) || (l_bufcap (st w1) <? n)
      then (RErr, desync "kernel-contract-recvfrom" w1) else
      if is_listener then
        let cid := l_next (st w1) in
        let c := mkConn fd false false [] [] data true true in
        let w2 := with_st w1 (set_next (setc (st w1) cid c) (cid + 1)) in
        let w3 := emit (obs "cb" (ASym "udp" :: AInt cid :: src)) w2 in
        let '(act, _, w4) := handler fuel cid w3 in
        let w5 := wsetc w4 cid (c_release (wc w4 cid)) in
        match act with AShutdown => (RShutdown, w5) | _ => (RNil, w5) end
      else
        match alookup fd (l_reg (st w1)) with
        | None => (RErr, desync "udp-no-conn" w1)
        | Some cid =>
          let w2 := wsetc (ghost "udpconn" cid [] w1) cid (c_set_buf (wc w1 cid) data) in
          let w3 := emit (obs "cb" [ASym "traffic"; AInt cid]) w2 in
          let '(act, _, w4) := handler fuel cid w3 in
          match act with AShutdown => (RShutdown, w4) | _ => (RNil, w4) end
        end
  end.

(* el.accept (reuse-port mode: the loop owns the listener) *)
Definition el_accept (fuel : nat) (lfd : Z) (is_udp : bool) (w : world) : res * world :=
  if is_udp then el_read_udp fuel lfd true w
  else
    match sys "accept" [AInt lfd] w with
    | (KNone, w1) => (RNil, w1)
    | (KErr e, w1) =>
        if is_eagain e || sym_eqb e "eintr" || sym_eqb e "econnreset" || sym_eqb e "econnaborted"
        then (RNil, w1) else (RAccept, w1)
    | (KOk nfd _, w1) =>
        (* kernel contract: a new descriptor is not one the loop still has registered *)
        if fd_in_use (st w1) nfd then (RErr, desync "kernel-contract-fd" w1) else
        let cid := l_next (st w1) in
        let c := mkConn nfd false false [] [] [] false true in
        el_register0 fuel cid (with_st w1 (set_next (setc (st w1) cid c) (cid + 1)))
    end.

(* one ready event *)
(* The poll_opt build (poller_epoll_ultimate.go, reactor_ultimate.go) dispatches through the
   attachment stored with the epoll registration instead of a registry lookup.  The build
   variant is part of the configuration: it is encoded as the pseudo-listener -1 in the
   `listen` lines (no descriptor is negative). *)
Definition polopt (s : lstate) : bool :=
  match alookup (-1) (l_listeners s) with Some _ => true | None => false end.

Definition dispatch (fuel : nat) (fd ev : Z) (w : world) : res * world :=
  match alookup fd (l_reg (st w)) with
  | Some cid =>
      (* default build: every registered connection -- a client's connected UDP socket
         included -- is served through conn.processIO; poll_opt: a datagram connection's
         attachment callback is el.readUDP *)
      if polopt (st w) && c_udp (wc w cid) then el_read_udp fuel fd false w
      else process_io fuel cid ev w
  | None =>
      match alookup fd (l_listeners (st w)) with
      | Some is_udp => el_accept fuel fd is_udp w
      | None =>
          (* an event for a connection closed earlier in this batch.  default build: the registry
             lookup fails, "stale event", epoll_ctl(DEL); poll_opt: conn.processIO runs on the
             closed connection, where every path is guarded by `opened`: nothing happens *)
          if polopt (st w) then (RNil, w) else epctl "del" fd false false w
      end
  end.

(* one task *)
Definition run_task (fuel : nat) (t : task) (w : world) : res * world :=
  match t with
  | TRegister cid cb =>
      let '(r, w1) := el_register0 fuel cid w in
      (* the registration callback (closing connOpened) is not observable from outside: ghost marker *)
      (r, if cb then ghost "regcb" cid [] w1 else w1)
  | TAsyncWrite cid d cb =>
      let c := wc w cid in
      if negb (c_opened c) then
        (RErr, if cb then emit (obs "acb" [ASym "write"; AInt cid; ASym "closed"]) w else w)
      else
        let '(_, ok, w1) := conn_write fuel cid d w in
        ((if ok then RNil else RErr),
         if cb then emit (obs "acb" [ASym "write"; AInt cid; err_sym ok]) w1 else w1)
  | TAsyncWritev cid segs cb =>
      let c := wc w cid in
      if negb (c_opened c) then
        (RErr, if cb then emit (obs "acb" [ASym "writev"; AInt cid; ASym "closed"]) w else w)
      else
        let '(_, ok, w1) := conn_writev fuel cid segs w in
        ((if ok then RNil else RErr),
         if cb then emit (obs "acb" [ASym "writev"; AInt cid; err_sym ok]) w1 else w1)
  | TWake cid cb =>
      let '(r, w1) := el_wake fuel cid w in
      (r, if cb then emit (obs "acb" [ASym "wake"; AInt cid; ASym (match r with RNil => "nil" | RShutdown => "shutdown" | _ => "err" end)]) w1 else w1)
  | TClose cid cb =>
      let '(r, w1) := el_close fuel cid true w in
      (r, if cb then emit (obs "acb" [ASym "close"; AInt cid; ASym (match r with RNil => "nil" | RShutdown => "shutdown" | _ => "err" end)]) w1 else w1)
  | TRead0 cid => el_read fuel cid 0 w
  | TWrite0 cid => el_write fuel cid 0 w
  | TExec => (RNil, emit (obs "exec" []) w)
  | TShutdown => (RShutdown, w)
  end.

(* drain the urgent queue completely *)
Fixpoint drain_urgent (fuel : nat) (w : world) : res * world :=
  match fuel with
  | O => (RErr, desync "fuel" w)
  | S f =>
    if halt w then (RNil, w) else
    match l_urgent (st w) with
    | [] => (RNil, w)
    | t :: rest =>
        let w1 := with_st w (set_queues (st w) rest (l_low (st w)) (l_flag (st w))) in
        match run_task f t w1 with
        | (RShutdown, w2) => (RShutdown, w2)
        | (_, w2) => drain_urgent f w2
        end
    end
  end.

Fixpoint drain_low (fuel : nat) (k : Z) (w : world) : res * world :=
  match fuel with
  | O => (RErr, desync "fuel" w)
  | S f =>
    if halt w then (RNil, w) else
    if k <=? 0 then (RNil, w) else
    match l_low (st w) with
    | [] => (RNil, w)
    | t :: rest =>
        let w1 := with_st w (set_queues (st w) (l_urgent (st w)) rest (l_flag (st w))) in
        match run_task f t w1 with
        | (RShutdown, w2) => (RShutdown, w2)
        | (_, w2) => drain_low f (k - 1) w2
        end
    end
  end.

Definition chores (fuel : nat) (w : world) : res * world :=
  match drain_urgent fuel w with
  | (RShutdown, w1) => (RShutdown, w1)
  | (_, w1) =>
    match drain_low fuel (l_maxlow (st w1)) w1 with
    | (RShutdown, w2) => (RShutdown, w2)
    | (_, w2) =>
      let s := set_flag (st w2) false in
      match l_urgent s, l_low s with
      | [], [] => (RNil, with_st w2 s)
      | _, _ =>
          let '(_, w3) := efd_write (S (List.length (inp w2))) (with_st w2 (set_flag s true)) in
          (RNil, w3)
      end
    end
  end.

(* events of one epoll_wait return: fd/ev pairs *)
Fixpoint events (fuel : nat) (evs : list arg) (do_chores : bool) (w : world) : res * bool * world :=
  match evs with
  | AInt fd :: AInt ev :: rest =>
      if halt w then (RNil, do_chores, w) else
      if fd =? l_efd (st w) then events fuel rest true w
      else
        match dispatch fuel fd ev w with
        | (RShutdown, w1) => (RShutdown, do_chores, w1)
        | (RAccept, w1) => (RAccept, do_chores, w1)
        | (_, w1) => events fuel rest do_chores w1
        end
  | _ => (RNil, do_chores, w)
  end.

(* el.closeConns after the polling loop has returned: the iteration order over the
   registry is the implementation's choice (map iteration), given by `pick` lines *)
Fixpoint close_conns (fuel : nat) (w : world) : world :=
  match fuel with
  | O => desync "fuel" w
  | S f =>
    if halt w then w else
    match l_reg (st w) with
    | [] => w
    | _ =>
      match pull_gen true w with
      | (Some ("pick", [AInt cid]), w1) =>
          let '(_, w2) := el_close f cid true w1 in close_conns f w2
      | (Some _, w1) => desync "expected-pick" w1
      | (None, w1) => w1
      end
    end
  end.

(* Poller.Polling *)
Fixpoint polling (fuel : nat) (w : world) : world :=
  match fuel with
  | O => desync "fuel" w
  | S f =>
    (* between events: the size of the registry is what Engine.CountConnections reports *)
    let w := emit ("g", [ASym "count"; AInt (zlen (l_reg (st w))); ABytes []]) w in
    (* ... and what every registered connection still has to send (for the progress checkers) *)
    let w := fold_left (fun w fc => if c_udp (wc w (snd fc)) then w else
                                    emit ("g", [ASym "pending"; AInt (snd fc); AInt (fst fc);
                                                AInt (zlen (c_out (wc w (snd fc))))]) w) (l_reg (st w)) w in
    match pull w with
    | (None, w1) => w1
    | (Some ("wait", evs), w1) =>
        match events f evs false w1 with
        | (RShutdown, _, w2) => close_conns f w2
        | (RAccept, _, w2) => close_conns f w2
        | (_, true, w2) =>
            match chores f w2 with
            | (RShutdown, w3) => close_conns f w3
            | (_, w3) => polling f w3
            end
        | (_, false, w2) => polling f w2
        end
    | (Some _, w1) => desync "expected-wait" w1
    end
  end.

(* ------------------------------------------------------------------ *)
(* runner: first line `cfg <et> <chunk> <bufcap> <efd> <thr> <maxlow>`, then
   `listen <fd> <udp>` lines, then the run *)

Fixpoint take_listeners (i : list line) : list (Z * bool) * list line :=
  match i with
  | ("listen", [AInt fd; AInt udp]) :: r =>
      let '(ls, r') := take_listeners r in ((fd, udp =? 1) :: ls, r')
  | _ => ([], i)
  end.

Definition init_world (i : list line) : option world :=
  match i with
  | ("cfg", [AInt et; AInt chunk; AInt bufcap; AInt efd; AInt thr; AInt maxlow]) :: r =>
      let '(ls, r') := take_listeners r in
      Some (mkW (mkL (et =? 1) chunk bufcap efd thr maxlow ls [] [] [] [] false 0) r' [] false)
  | _ => None
  end.

(* recursion bound: fuel is burnt per consumed line, per argument of an `h on .. on ..`
   line, per queued task and per registered connection; this weight dominates all of them *)
Definition init_fuel (i : list line) : nat :=
  S (fold_right (fun l a => (2 + List.length (snd l) + a)%nat) O i).

Definition run_loop : runner := fun i =>
  match init_world i with
  | None => [obs "desync" [ASym "no-cfg"]]
  | Some w => out_of (rev (log (polling (init_fuel i) w)))
  end.
