(* Trace interface of Model/Start.v for the correspondence runs (family `loopstart`): one `start`
   line per engine life, answered with the observables the driver reads off its descriptor ledger. *)
From GV Require Import Lib.Trace Model.Start.
From Coq Require Import List ZArith String.
Import ListNotations.
Open Scope string_scope.

Definition nat_of (a : arg) : nat := match a with AInt z => Z.to_nat z | _ => 0%nat end.
Definition flag_of (a : arg) : bool := match a with AInt z => negb (Z.eqb z 0) | _ => false end.

Definition fault_of (call : arg) (idx : arg) : option fault :=
  match call with
  | ASym c =>
      if sym_eqb c "epoll_create1" then Some (mkFault SEpoll (nat_of idx))
      else if sym_eqb c "eventfd" then Some (mkFault SEfd (nat_of idx))
      else if sym_eqb c "epoll_ctl" then Some (mkFault SAdd (nat_of idx))
      else if sym_eqb c "socket" then Some (mkFault SSock (nat_of idx))
      else if sym_eqb c "keepalive" then Some (mkFault SOpt (nat_of idx))
      else None
  | _ => None
  end.

Definition zlen {A} (l : list A) : Z := Z.of_nat (List.length l).

(* start <reuseport> <loops> <listeners> <failing call | none> <index> *)
Definition start_line (l : line) : list line :=
  match l with
  | ("start", [rp; nl; nlis; call; idx]) =>
      let c := Start.mkCfg (flag_of rp) (nat_of nl) (nat_of nlis) (fault_of call idx) in
      let '(s, o) := Start.run c in
      [obs "ret" [ASym (match o with Start.Failed => "failed" | Start.Started => "started" end)];
       obs "created" [AInt (Z.of_nat (count_kind KSock s)); AInt (Z.of_nat (count_kind KEpoll s));
                      AInt (Z.of_nat (count_kind KEfd s))];
       obs "closes" [AInt (zlen (cls s))];
       obs "left" [AInt (zlen (leaked s))];
       obs "strayclose" [AInt (Z.of_nat (dup_closes (cls s)))]]
  (* cstart <loops> <failing call | none> <index>: Client.Start (and Client.Stop when it succeeded) *)
  | ("cstart", [nl; call; idx]) =>
      let '(s, o) := Start.run_client (nat_of nl) (fault_of call idx) in
      [obs "ret" [ASym (match o with Start.Failed => "failed" | Start.Started => "started" end)];
       obs "created" [AInt (Z.of_nat (count_kind KSock s)); AInt (Z.of_nat (count_kind KEpoll s));
                      AInt (Z.of_nat (count_kind KEfd s))];
       obs "closes" [AInt (zlen (cls s))];
       obs "left" [AInt (zlen (leaked s))];
       obs "strayclose" [AInt (Z.of_nat (dup_closes (cls s)))]]
  | _ => []
  end.

Definition run_start : runner := fun ls => flat_map start_line ls.
