(* What a blocked Client.Dial / Client.Enroll waits for: the registration task of the
   user goroutine is queued on a loop; if that loop is polling, the call can return nil. *)
From GV Require Import Lib.Trace Lib.Interleave Model.Engine Proofs.EngineBase Proofs.EngineInv Proofs.EngineHist
  Proofs.EngineConns Proofs.EngineWorkers Proofs.EngineProgress Proofs.EngineProofs Proofs.EngineQueue.
From Coq Require Import Lia List Bool Arith ZArith.
Import ListNotations.
Open Scope list_scope.
Local Arguments upd {A} _ _ _ : simpl nomatch.

(* ------------------------------------------------------------------ *)
(* what a user goroutine blocked in Client.Dial waits for *)

Definition Inv_uq (s : estate) : Prop := forall g,
  get_user s g = Some (UEnrollWait false) ->
  exists li l cid, get_loop s li = Some l /\ In (TReg cid (OUser g)) (l_q l).

(* no user goroutine starts to wait *)
Definition u_pres (s s' : estate) : Prop := forall g,
  get_user s' g = Some (UEnrollWait false) -> get_user s g = Some (UEnrollWait false).

Lemma Inv_uq_pres : forall s s', Inv_uq s -> q_pres s s' -> u_pres s s' -> Inv_uq s'.
Proof.
  intros s s' HI Hq Hu g Hg.
  destruct (HI g (Hu g Hg)) as [li [l [cid [Hl Hin]]]].
  destruct (Hq _ _ Hl) as [l' [Hl' Hsub]]. exists li, l', cid. auto.
Qed.

Lemma u_pres_same : forall s s', e_users s' = e_users s -> u_pres s s'.
Proof. intros s s' E g H. unfold get_user in *. rewrite E in H. exact H. Qed.

Lemma u_pres_put : forall s s' g0 u0, e_users s' = upd g0 (fun _ => u0) (e_users s) ->
  u0 <> UEnrollWait false -> u_pres s s'.
Proof.
  intros s s' g0 u0 E Hn g H. unfold get_user in *. rewrite E, nth_error_upd in H. destruct (Nat.eqb g0 g).
  - destruct (nth_error (e_users s) g); cbn in H; [|discriminate]. injection H as H. destruct (Hn H).
  - exact H.
Qed.

Lemma signal_user_wait : forall s o g, get_user (signal s o) g = Some (UEnrollWait false) ->
  get_user s g = Some (UEnrollWait false) /\ o <> OUser g.
Proof.
  intros s o g H. unfold get_user in *. destruct o as [|j|g0]; cbn in H; try (split; [exact H|discriminate]).
  rewrite nth_error_upd in H. destruct (Nat.eqb_spec g0 g) as [->|Hne].
  - destruct (nth_error (e_users s) g) as [u|]; cbn in H; [|discriminate]. destruct u; discriminate.
  - split; [exact H|congruence].
Qed.

Lemma u_pres_signal : forall s s' o, e_users s' = e_users (signal s o) -> u_pres s s'.
Proof.
  intros s s' o E g H. unfold get_user in H. rewrite E in H. apply signal_user_wait in H. apply H.
Qed.

(* a loop runs the task tk: the users that still wait do not wait for tk *)
Lemma Inv_uq_run : forall s i l k tk l' s',
  Inv_uq s -> get_loop s i = Some l -> nth_error (l_q l) k = Some tk ->
  (forall t, In t (l_q l) -> t <> tk -> In t (l_q l')) ->
  e_loops s' = upd i (fun _ => l') (e_loops s) ->
  (forall g, get_user s' g = Some (UEnrollWait false) ->
     get_user s g = Some (UEnrollWait false) /\ forall cid, tk <> TReg cid (OUser g)) ->
  Inv_uq s'.
Proof.
  intros s i l k tk l' s' HI Hl Hk Hin EL HU g Hg.
  destruct (HU g Hg) as [H1 H2].
  destruct (HI g H1) as [li [lw [cid [Hlw Hi]]]].
  unfold get_loop in *. destruct (Nat.eqb_spec i li) as [Hii|Hne].
  - subst li. rewrite Hl in Hlw. injection Hlw as <-.
    exists i, l', cid. rewrite EL, nth_error_upd, Nat.eqb_refl, Hl. split; [reflexivity|].
    apply Hin; [exact Hi|]. apply not_eq_sym. apply H2.
  - exists li, lw, cid. rewrite EL, nth_error_upd. apply Nat.eqb_neq in Hne. rewrite Hne. auto.
Qed.

Ltac uq_fin := frame_fin;
  first [ apply q_pres_refl; reflexivity
        | (eapply q_pres_upd; [reflexivity|]; intros; cbn; rewrite ?in_app_iff; auto)
        | (eapply q_pres_map; [reflexivity|]; intros; reflexivity)
        | apply u_pres_same; reflexivity
        | (eapply u_pres_put; [reflexivity|]; discriminate)
        | idtac ].

Lemma Inv_uq_init : forall cfg nu, Inv_uq (einit cfg nu).
Proof.
  intros cfg nu g H. unfold get_user in H. cbn in H. apply nth_error_In, repeat_spec in H. discriminate.
Qed.

Lemma Inv_uq_step : forall s t c s' evs, Inv_uq s -> estep_opt s t c = Some (s', evs) -> Inv_uq (push evs s').
Proof.
  intros s t c s' evs HI H.
  assert (G : Inv_uq s'); [|exact G].
  destruct t; cbn in H.
  - unfold rstep in H. destruct (e_r s); destruct c; try discriminate H; cbv beta iota in H; step_cases H.
    all: eapply Inv_uq_pres; [exact HI| |]; uq_fin.
  - (* a loop: the task it runs may be the registration of a user, who is then signalled *)
    unfold lstep in H. destruct (get_loop s i) as [l|] eqn:Hl; [|discriminate H].
    destruct (l_pc l) eqn:Epc.
    2: destruct c as [| | | | |io|k h| | | | | | |]; try (destruct io).
    all: step_cases H.
    all: try match goal with E : apply_cb _ _ _ _ = _ |- _ => apply apply_cb_spec in E; destruct E as [Eq _]; cbn in Eq end.
    all: try match goal with E : loop_common _ _ _ = Some _ |- _ => unfold loop_common in E; rewrite Epc in E; step_cases E end.
    all: try match goal with X : false = ?b |- _ => subst b end; try match goal with X : true = ?b |- _ => subst b end.
    all: try match goal with |- context [cancel_if ?b _] => destruct b; cbn [cancel_if] end.
    all: try match goal with |- context [if act_shut ?a then _ else _] => destruct (act_shut a) end.
    all: try (eapply Inv_uq_pres; [exact HI
              |eapply q_pres_put; [exact Hl|reflexivity|intros tx Htx; cbn; rewrite ?Eq; cbn; auto]
              |apply u_pres_same; reflexivity]; fail).
    all: try match goal with E : nth_error (l_q _) ?k = Some ?tk |- _ => rename E into Enth end.
    all: eapply Inv_uq_run; [exact HI|exact Hl|exact Enth| |first [reflexivity|destruct o; reflexivity]|].
    all: try (intros tx Htx Hne; cbn; rewrite ?Eq; cbn; eapply In_remove_nth; eauto).
    all: intros g Hg.
    all: try (split; [exact Hg|intros; discriminate]).
    all: apply signal_user_wait in Hg; destruct Hg as [Hg Ho]; split; [exact Hg|intros cx Hx; congruence].
  - unfold astep in H. step_cases H.
    all: eapply Inv_uq_pres; [exact HI| |]; uq_fin.
  - unfold tstep in H. step_cases H.
    all: eapply Inv_uq_pres; [exact HI| |]; uq_fin.
  - unfold ustep in H. destruct (get_user s g) eqn:Eg; [|discriminate].
    destruct u as [|ex pk|op].
    + destruct c; try discriminate H. unfold do_call in H. destruct c; step_cases H; unfold new_worker.
      all: try (eapply Inv_uq_pres; [exact HI| |]; uq_fin; try (destruct b; uq_fin); fail).
      (* the call that starts to wait: its task has just been queued *)
      intros g0 Hg0. unfold get_user, put_user in Hg0. cbn [e_users set_users set_next trigger set_loops] in Hg0.
      rewrite nth_error_upd in Hg0.
      match goal with E : get_loop s li = Some ?lx |- _ => rename E into Hlx end.
      destruct (Nat.eqb_spec g g0) as [Hgg|Hgg].
      * subst g0. exists li. unfold get_loop in *. cbn [e_loops put_user set_users set_loops set_next trigger].
        rewrite nth_error_upd, Nat.eqb_refl, Hlx. cbn.
        eexists _, (e_next s). split; [reflexivity|]. cbn. rewrite in_app_iff. right. left. reflexivity.
      * destruct (HI g0 Hg0) as [lj [lw [cid [Hlw Hin]]]]. exists lj.
        unfold get_loop in *. cbn [e_loops put_user set_users set_loops set_next trigger]. rewrite nth_error_upd.
        destruct (Nat.eqb li lj); rewrite Hlw; cbn; eexists _, cid; (split; [reflexivity|]); cbn; rewrite ?in_app_iff; auto.
    + destruct c; try discriminate H; step_cases H.
      all: eapply Inv_uq_pres; [exact HI| |]; uq_fin.
    + step_cases H. eapply Inv_uq_pres; [exact HI| |]; uq_fin.
  - (* a worker *)
    unfold wstep in H. destruct (nth_error (e_workers s) k) as [wk|] eqn:Ek; [|discriminate H].
    step_cases H.
    all: eapply Inv_uq_pres; [exact HI| |]; uq_fin.
Qed.

Theorem inv_uq_reachable : forall s, ereachable s -> Inv_uq s.
Proof.
  apply engine_invariant; [apply Inv_uq_init|]. intros s t c s' evs _ HI H. eapply Inv_uq_step; eauto.
Qed.

Theorem client_dial_queued : forall s g, ereachable s -> get_user s g = Some (UEnrollWait false) ->
  exists li l cid, get_loop s li = Some l /\ In (TReg cid (OUser g)) (l_q l).
Proof. intros s g Hr. exact (inv_uq_reachable s Hr g). Qed.

(* ------------------------------------------------------------------ *)
(* the liveness half: a blocked Dial whose loop is still polling can return nil, after the loop
   has run the registration (OnOpen of the new connection) *)

Lemma return_when_opened : forall s g, get_user s g = Some (UEnrollWait true) ->
  exec (fun_step estep) s [((TU g, CNone), [(TU g, KRes RNil)])] (push [(TU g, KRes RNil)] (put_user s g UIdle)).
Proof.
  intros s g Hg. apply exec_one. cbn. unfold ustep. rewrite Hg. reflexivity.
Qed.

(* the execution is: the loop runs the queued registration (OnOpen returns None), then the
   user goroutine returns *)
Theorem client_dial_completes_open : forall s g, ereachable s -> get_user s g = Some (UEnrollWait false) ->
  (forall li l cid, get_loop s li = Some l -> In (TReg cid (OUser g)) (l_q l) -> l_pc l = LPoll) ->
  exists tr s' li idx cid,
    exec (fun_step estep) s tr s' /\
    map fst tr = [(TL li, CRun idx h_none); (TU g, CNone)] /\
    get_user s' g = Some UIdle /\
    e_hist s' = (TU g, KRes RNil) :: (TL li, KOpen cid) :: e_hist s.
Proof.
  intros s g Hr Hg Hpoll.
  destruct (inv_uq_reachable _ Hr g Hg) as [li [l [cid [Hl Hin]]]].
  specialize (Hpoll li l cid Hl Hin).
  apply In_nth_error in Hin. destruct Hin as [idx Hidx].
  (* the loop runs the registration task *)
  set (l1 := l_set_conns (l_set_q l (remove_nth idx (l_q l))) (l_conns (l_set_q l (remove_nth idx (l_q l))) ++ [cid])).
  set (s1 := signal (set_loops s (upd li (fun _ => l1) (e_loops s))) (OUser g)).
  assert (H1 : estep_opt s (TL li) (CRun idx h_none) = Some (s1, [(TL li, KOpen cid)])).
  { cbn. unfold lstep. rewrite Hl, Hpoll, Hidx. reflexivity. }
  assert (Hg1 : get_user (push [(TL li, KOpen cid)] s1) g = Some (UEnrollWait true)).
  { unfold get_user in *. cbn [push set_hist e_users]. unfold s1. cbn [signal e_users set_users set_loops].
    erewrite nth_error_upd_same; [|exact Hg]. reflexivity. }
  eexists _, _, li, idx, cid. split; [|split; [|split]].
  - eapply exec_app; [apply exec_one; exact H1|apply return_when_opened; exact Hg1].
  - reflexivity.
  - unfold get_user in *. cbn [push set_hist e_users put_user set_users].
    erewrite nth_error_upd_same; [reflexivity|exact Hg1].
  - reflexivity.
Qed.

Theorem client_dial_completes_partial : forall s g, ereachable s -> get_user s g = Some (UEnrollWait false) ->
  (forall li l cid, get_loop s li = Some l -> In (TReg cid (OUser g)) (l_q l) -> l_pc l = LPoll) ->
  exists tr s', exec (fun_step estep) s tr s' /\ get_user s' g = Some UIdle /\
    (exists h, e_hist s' = (TU g, KRes RNil) :: h).
Proof.
  intros s g Hr Hg Hpoll.
  destruct (client_dial_completes_open s g Hr Hg Hpoll) as [tr [s' [li [idx [cid [He [_ [Hu Hh]]]]]]]].
  exists tr, s'. split; [exact He|]. split; [exact Hu|]. eexists. exact Hh.
Qed.

(* ------------------------------------------------------------------ *)
(* non-vacuity: evaluated by the kernel *)

(* a started client with one Dial in flight: the hypotheses of client_dial_queued and of
   client_dial_completes_partial hold there *)
Definition exc_cfg : config := mkCfg true 0 false false 1.
Definition exc_dialing : estate :=
  fst (run estep (einit exc_cfg 2)
         [ (TR, CBoot ANone); (TR, CNone); (TR, CNone); (TU 0, CCall (KCliEnroll 0 false)) ]).

Example exc_dialing_reachable : ereachable exc_dialing.
Proof. apply run_reachable. exists exc_cfg, 2%nat. reflexivity. Qed.

Example exc_dialing_waits :
  get_user exc_dialing 0 = Some (UEnrollWait false) /\
  (exists l, get_loop exc_dialing 0 = Some l /\ l_pc l = LPoll /\ l_q l = [TReg 0 (OUser 0)]) /\
  (forall li l cid, get_loop exc_dialing li = Some l -> In (TReg cid (OUser 0)) (l_q l) -> l_pc l = LPoll).
Proof.
  vm_compute. split; [reflexivity|]. split; [eexists; repeat split|].
  intros [|[|li]] l cid Hl; try discriminate Hl. injection Hl as <-. reflexivity.
Qed.

(* and the Dial returns nil once the loop has run the registration *)
Example exc_dialing_returns :
  let s' := fst (run estep exc_dialing [ (TL 0, CRun 0 h_none); (TU 0, CNone) ]) in
  get_user s' 0 = Some UIdle /\ e_hist s' = (TU 0, KRes RNil) :: (TL 0, KOpen 0) :: e_hist exc_dialing.
Proof. vm_compute. split; reflexivity. Qed.

Print Assumptions inv_uq_reachable.
Print Assumptions client_dial_queued.
Print Assumptions client_dial_completes_open.
Print Assumptions client_dial_completes_partial.
Print Assumptions exc_dialing_reachable.
Print Assumptions exc_dialing_waits.
Print Assumptions exc_dialing_returns.
