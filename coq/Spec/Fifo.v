(* Abstract FIFO byte queue: the one-screen specification every buffer model
   (ring C09, elastic C10, linked list C11) is proved to refine.
   Content is a [list Z] (bytes in [0,256)); sizes and counts are [Z]. *)
From Coq Require Export List ZArith.
Export ListNotations.
Open Scope Z_scope.

(* Z-indexed list primitives (Z.to_nat is used only here) *)
Definition zlen {A} (l : list A) : Z := Z.of_nat (List.length l).
Definition ztake {A} (n : Z) (l : list A) : list A := firstn (Z.to_nat n) l.
Definition zdrop {A} (n : Z) (l : list A) : list A := skipn (Z.to_nat n) l.
Definition znth (i : Z) (l : list Z) : Z := nth (Z.to_nat i) l 0.

(* The queue *)
Definition fifo := list Z.
Definition fifo_empty : fifo := [].
Definition fifo_len (q : fifo) : Z := zlen q.                     (* Buffered *)
Definition fifo_push (q : fifo) (bs : list Z) : fifo := q ++ bs.  (* write-type operations *)
Definition fifo_peek (q : fifo) (n : Z) : list Z := ztake n q.    (* next n bytes, not consumed *)
Definition fifo_take (q : fifo) (n : Z) : list Z * fifo := (ztake n q, zdrop n q).  (* read-type operations *)
Definition fifo_is_empty (q : fifo) : bool := match q with [] => true | _ => false end.
