#!/usr/bin/env python3
"""Rewrites the seeded-changes table in DESIGN.md (between the SEEDTABLE markers) from seeded/*/meta.json."""
import glob, json, os, re
root = os.path.dirname(os.path.dirname(os.path.abspath(__file__)))
rows = []
for d in sorted(glob.glob(os.path.join(root, "seeded", "*"))):
    mp = os.path.join(d, "meta.json")
    if not os.path.exists(mp):
        continue
    m = json.load(open(mp))
    v = m.get("verified_by_orchestrator", {})
    title = (m.get("title") or m.get("what") or "").replace("|", "/").replace("\n", " ")
    needs = (m.get("needs") or "")
    if isinstance(needs, list):
        needs = "; ".join(map(str, needs))
    needs = needs.replace("|", "/").replace("\n", " ")
    if len(needs) > 160:
        needs = needs[:157] + "..."
    out = v.get("check_output", "").replace("|", "/")
    rows.append("| %s | %s | %s | **%s** - %s |" % (os.path.basename(d), title[:150], needs, v.get("verdict", "?"), out))
table = "| seed | change | needs | outcome |\n|---|---|---|---|\n" + "\n".join(rows) + "\n"
p = os.path.join(root, "DESIGN.md")
s = open(p).read()
if "<!--SEEDTABLE-->" in s:
    s = re.sub(r"<!--SEEDTABLE-->.*?<!--/SEEDTABLE-->", "<!--SEEDTABLE-->\n" + table + "<!--/SEEDTABLE-->", s, flags=re.S)
else:
    s = s.replace("| seed | what | caught by |\n|---|---|---|\nSEEDTABLE\n", "<!--SEEDTABLE-->\n" + table + "<!--/SEEDTABLE-->\n")
open(p, "w").write(s)
print(len(rows), "seeds in table")
