//go:build !poll_opt

package main

import "github.com/panjf2000/gnet/v2/pkg/netpoll"

// default poller (poller_epoll_default.go): Polling takes the I/O callback;
// epoll_wait goes through unix.EpollWait, i.e. through the vunix hook.
const variant = "default"

func runPolling(d *drv) error {
	return d.p.Polling(func(fd int, _ netpoll.IOEvent, _ netpoll.IOFlags) error { return d.ioCallback(fd) })
}

func addIO(d *drv, fd int) error {
	return d.p.AddRead(&netpoll.PollAttachment{FD: fd}, true)
}

func installWaitHook() {}
func removeWaitHook()  {}
