(* Link between the event-loop model (Model/Loop.v, C04) and the registry models
   (Model/Registry.v, C14).

   Model/Loop.v keeps the connection registry of an event loop ([l_reg]) as an
   association list fd -> cid and manipulates it with [Loop.alookup] (dispatch,
   el_close, el_wake, el_read_udp, the [fd_in_use] guard), [Loop.aset] (el_register0),
   [Loop.aremove] (el_close), [Loop.zlen] (the `g count` marker = Engine.CountConnections)
   and, at shutdown, [close_conns], which closes the registered connections one by one
   in an order chosen by the environment (`pick` lines) until [l_reg] is [].  In gnet
   the registry is connStore: a Go map plus a counter (conn_map.go, model mp_xxx) or,
   with the gc_opt build tag, the compacting matrix (conn_matrix.go, model mx_xxx).

   Every lemma below has the shape

       the registry model represents the association list R the loop model holds
       ([map_rep] / [mat_rep]: getConn is [Loop.alookup _ R], loadCount is [Loop.zlen R],
        keys and values of R are distinct, and the representation invariant holds)
       ->  addConn / delConn / the shutdown iteration of Model/Registry.v does not
           panic and leaves a state that represents what the loop model stores
           ([Loop.aset fd cid R] / [Loop.aremove fd R] / []).

   Nothing about the registry internals is re-proved: every lemma is an instance of a
   theorem of Properties/C14.v (matrix variant: C14_matrix_inv_init, C14_matrix_add,
   C14_matrix_add_at_capacity_drops, C14_matrix_del_relocation_invisible,
   C14_matrix_iterate_delete_all_empties) or of the per-operation simulation lemmas
   behind C14_map_registry_refines_map (Proofs/RegistryProofs.v: Rmp_init, mp_sim_add,
   mp_sim_del, mp_sim_iter), plus association-list arithmetic.

   The side conditions of the C14 theorems are discharged from what the loop model
   guarantees at the call site (second part of the file, from the invariant [Rst] of
   Proofs/LoopAState.v that Proofs/LoopATop.v establishes for every run):
     distinct keys / values of [l_reg]                      loop_reg_distinct
     el_register0 registers a fresh fd and a fresh cid       loop_register_guard   (the [fd_in_use] guard)
     el_close removes the entry of the closing connection    loop_close_guard
   The matrix variant has one more hypothesis the loop model does not discharge:
   population < ROW * COL (at capacity addConn silently drops the connection:
   link_matrix_add_at_capacity -- the loop model's [aset] is NOT what happens then).

   Go call sites (eventloop_unix.go) -> lemma
     el.connections.addConn(c, el.idx)      el.register0          link_map_add / link_matrix_add
     el.connections.delConn(c)              el.close              link_map_del / link_matrix_del
     el.connections.getConn(fd)             el.read/write/... (reactor dispatch)   link_map_obs / link_matrix_obs
     el.connections.loadCount()             el.countConn          link_map_obs / link_matrix_obs
     el.connections.iterate(close)          el.closeConns         link_map_shutdown / link_matrix_shutdown *)
From Coq Require Import Lia ZArith List Bool Permutation.
From GV Require Import Lib.Trace Spec.FinMap Model.Registry Proofs.ZMapFacts Proofs.MatrixProofs
  Proofs.RegistryProofs Properties.C14.
From GV Require Model.Loop Proofs.LoopInv Proofs.LoopAState.
Import ListNotations.
Open Scope Z_scope.

(* ------------------------------------------------------------------ *)
(* the association-list primitives of the loop model are the finite-map
   operations of Spec/FinMap.v (they differ in the orientation of [=?]) *)

Lemma alookup_fm_get : forall (reg : list (Z * Z)) fd, Loop.alookup fd reg = fm_get reg fd.
Proof.
  induction reg as [|[k v] r IH]; intros fd; cbn [Loop.alookup fm_get]; [reflexivity|].
  rewrite (Z.eqb_sym fd k). destruct (k =? fd); [reflexivity|apply IH].
Qed.

Lemma aremove_fm_remove : forall (reg : list (Z * Z)) fd, Loop.aremove fd reg = fm_remove reg fd.
Proof.
  unfold fm_remove. induction reg as [|[k v] r IH]; intros fd; cbn [Loop.aremove filter fst]; [reflexivity|].
  rewrite (Z.eqb_sym fd k). destruct (k =? fd); cbn [negb]; rewrite IH; reflexivity.
Qed.

Lemma aset_fm_add : forall (reg : list (Z * Z)) fd id, Loop.aset fd id reg = fm_add reg fd id.
Proof. intros. unfold Loop.aset, fm_add. rewrite aremove_fm_remove. reflexivity. Qed.

Lemma zlen_fm_size : forall reg : list (Z * Z), Loop.zlen reg = fm_size reg.
Proof. reflexivity. Qed.

Lemma alookup_some_pair : forall (reg : list (Z * Z)) fd id, Loop.alookup fd reg = Some id -> In (fd, id) reg.
Proof.
  induction reg as [|[k v] r IH]; intros fd id; cbn [Loop.alookup]; [discriminate|].
  destruct (Z.eqb_spec fd k) as [->|N].
  - intros [= ->]. left. reflexivity.
  - intros H. right. apply IH. exact H.
Qed.

Lemma alookup_some_val : forall (reg : list (Z * Z)) fd id, Loop.alookup fd reg = Some id -> In id (map snd reg).
Proof. intros reg fd id H. apply alookup_some_pair in H. apply in_map_iff. exists (fd, id). auto. Qed.

Lemma pair_alookup : forall (reg : list (Z * Z)) fd id, NoDup (map fst reg) -> In (fd, id) reg -> Loop.alookup fd reg = Some id.
Proof. intros reg fd id Hn Hin. rewrite alookup_fm_get. apply fm_get_in; assumption. Qed.

Lemma in_vals_aremove : forall (reg : list (Z * Z)) k x, In x (map snd (Loop.aremove k reg)) -> In x (map snd reg).
Proof.
  induction reg as [|[k0 v] r IH]; intros k x; cbn [Loop.aremove map snd]; [tauto|].
  destruct (k =? k0); cbn [map snd In]; intros H.
  - right. apply (IH k). exact H.
  - destruct H as [H|H]; [left; exact H|right; apply (IH k); exact H].
Qed.

Lemma nodup_vals_aremove : forall (reg : list (Z * Z)) k, NoDup (map snd reg) -> NoDup (map snd (Loop.aremove k reg)).
Proof.
  induction reg as [|[k0 v] r IH]; intros k H; cbn [Loop.aremove map snd]; [constructor|].
  inversion H as [|? ? Hv Hr]; subst. destruct (k =? k0); [apply IH; exact Hr|].
  cbn [map snd]. constructor; [|apply IH; exact Hr].
  intros Hi. apply Hv. apply (in_vals_aremove r k). exact Hi.
Qed.

(* registering a fresh descriptor / a fresh connection keeps keys and values distinct *)
Lemma aset_fresh : forall (reg : list (Z * Z)) fd id,
  NoDup (map fst reg) -> NoDup (map snd reg) -> Loop.alookup fd reg = None -> ~ In id (map snd reg) ->
  Loop.aset fd id reg = (fd, id) :: reg /\
  NoDup (map fst (Loop.aset fd id reg)) /\ NoDup (map snd (Loop.aset fd id reg)) /\
  Loop.zlen (Loop.aset fd id reg) = Loop.zlen reg + 1.
Proof.
  intros reg fd id Hk Hv Hn Hf. unfold Loop.aset. rewrite (LoopAState.aremove_id fd reg Hn).
  split; [reflexivity|]. split; [|split].
  - cbn [map fst]. constructor; [|exact Hk]. apply LoopAState.alookup_none_notin. exact Hn.
  - cbn [map snd]. constructor; assumption.
  - apply LoopAState.zlen_cons.
Qed.

(* removing by value (what delConn does, given the connection object) is removing the
   key under which the connection is registered (what the loop model does) *)
Lemma filter_val_aremove : forall (reg : list (Z * Z)) fd id,
  NoDup (map fst reg) -> NoDup (map snd reg) -> Loop.alookup fd reg = Some id ->
  filter (fun p => negb (snd p =? id)) reg = Loop.aremove fd reg.
Proof.
  induction reg as [|[k v] r IH]; intros fd id Hk Hv; cbn [Loop.alookup Loop.aremove filter snd]; [discriminate|].
  inversion Hk as [|? ? Hk1 Hk2]; subst. inversion Hv as [|? ? Hv1 Hv2]; subst. cbn [fst snd map] in *.
  destruct (Z.eqb_spec fd k) as [->|N].
  - intros [= ->]. rewrite Z.eqb_refl. cbn [negb].
    rewrite (LoopAState.aremove_id k r) by (apply LoopAState.alookup_none_notin; exact Hk1).
    apply filter_all. intros [k' v'] Hp. cbn [snd]. destruct (Z.eqb_spec v' id) as [->|]; [|reflexivity].
    exfalso. apply Hv1. apply in_map_iff. exists (k', id). auto.
  - intros H. destruct (Z.eqb_spec v id) as [->|Nv].
    + exfalso. apply Hv1. apply (alookup_some_val r fd). exact H.
    + cbn [negb]. f_equal. apply IH; assumption.
Qed.

(* ------------------------------------------------------------------ *)
(* the shutdown iteration, seen from the loop model: [close_conns] repeats
   "pull `pick cid`; el_close cid" -- el_close removes the key the connection is
   registered under -- until [l_reg] is [] *)

Inductive empties_by : list (Z * Z) -> list Z -> Prop :=
| eb_done : empties_by [] []
| eb_pick : forall reg fd cid vis,
    Loop.alookup fd reg = Some cid -> empties_by (Loop.aremove fd reg) vis -> empties_by reg (cid :: vis).

(* the visit list of a registry iteration (every live connection exactly once: NoDup,
   permutation of the registered connections), used as the `pick` order, empties the list *)
Lemma perm_empties : forall vis (reg : list (Z * Z)),
  NoDup (map fst reg) -> NoDup (map snd reg) -> NoDup vis -> Permutation vis (map snd reg) ->
  empties_by reg vis.
Proof.
  induction vis as [|cid vis IH]; intros reg Hk Hv Hn Hp.
  - apply Permutation_nil in Hp. destruct reg; [constructor|discriminate].
  - assert (Hin : In cid (map snd reg)) by (eapply Permutation_in; [exact Hp|left; reflexivity]).
    apply in_map_iff in Hin. destruct Hin as ([fd id] & E & Hin). cbn [snd] in E. subst id.
    pose proof (pair_alookup reg fd cid Hk Hin) as Hl.
    apply (eb_pick reg fd cid vis Hl).
    inversion Hn as [|? ? Hc Hn']; subst.
    apply IH.
    + apply LoopAState.nodup_aremove. exact Hk.
    + apply nodup_vals_aremove. exact Hv.
    + exact Hn'.
    + rewrite <- (filter_val_aremove reg fd cid Hk Hv Hl).
      apply NoDup_Permutation; [exact Hn'|apply NoDup_map_filter; exact Hv|].
      intros x. rewrite in_map_iff. split.
      * intros Hx. assert (Hx' : In x (map snd reg)) by (eapply Permutation_in; [exact Hp|right; exact Hx]).
        apply in_map_iff in Hx'. destruct Hx' as (p & Ep & Hp'). exists p. split; [exact Ep|].
        apply filter_In. split; [exact Hp'|]. rewrite Ep.
        destruct (Z.eqb_spec x cid) as [->|]; [contradiction|reflexivity].
      * intros (p & Ep & Hp'). apply filter_In in Hp'. destruct Hp' as (Hp' & Hne). rewrite Ep in Hne.
        assert (Hx : In x (cid :: vis)).
        { eapply Permutation_in; [apply Permutation_sym; exact Hp|]. apply in_map_iff. exists p. auto. }
        destruct Hx as [<-|Hx]; [rewrite Z.eqb_refl in Hne; discriminate|exact Hx].
Qed.

(* conversely: whatever order empties the list visits every registered connection exactly once *)
Lemma empties_perm : forall (reg : list (Z * Z)) vis,
  NoDup (map fst reg) -> NoDup (map snd reg) -> empties_by reg vis ->
  NoDup vis /\ Permutation vis (map snd reg).
Proof.
  intros reg vis Hk Hv He. induction He as [|reg fd cid vis Hl He IH].
  - split; constructor.
  - destruct (IH (LoopAState.nodup_aremove fd reg Hk) (nodup_vals_aremove reg fd Hv)) as (Hn & Hp).
    rewrite <- (filter_val_aremove reg fd cid Hk Hv Hl) in Hp.
    assert (Hc : ~ In cid vis).
    { intros Hi. apply (Permutation_in _ Hp) in Hi. apply in_map_iff in Hi. destruct Hi as (p & Ep & Hi).
      apply filter_In in Hi. destruct Hi as (_ & Hne). rewrite Ep, Z.eqb_refl in Hne. discriminate. }
    split; [constructor; assumption|].
    apply NoDup_Permutation; [constructor; assumption|exact Hv|].
    intros x. split.
    + intros [<-|Hx]; [apply (alookup_some_val reg fd); exact Hl|].
      apply (Permutation_in _ Hp) in Hx. apply in_map_iff in Hx. destruct Hx as (p & Ep & Hx).
      apply filter_In in Hx. apply in_map_iff. exists p. tauto.
    + intros Hx. destruct (Z.eq_dec cid x) as [E|N]; [left; exact E|right].
      apply (Permutation_in _ (Permutation_sym Hp)). apply in_map_iff in Hx. destruct Hx as (p & Ep & Hx).
      apply in_map_iff. exists p. split; [exact Ep|]. apply filter_In. split; [exact Hx|].
      rewrite Ep. destruct (Z.eqb_spec x cid); [congruence|reflexivity].
Qed.

(* ====================================================================== *)
(* default build: conn_map.go                                              *)

(* the map registry represents the association list R: getConn / loadCount are lookup /
   length, keys and values are distinct, and every registered connection object stores
   the descriptor it is registered under (delConn reads c.fd) *)
Definition map_rep (st : mapst) (reg : list (Z * Z)) : Prop :=
  (forall fd, mp_get st fd = Loop.alookup fd reg) /\
  mp_load st = Loop.zlen reg /\
  NoDup (map fst reg) /\ NoDup (map snd reg) /\
  (forall fd id, mp_get st fd = Some id -> exists c, zget (mp_heap st) id = Some c /\ c_fd c = fd).

(* it is the simulation relation of the C14 refinement proof *)
Lemma map_rep_Rmp : forall st reg, map_rep st reg <-> Rmp st reg.
Proof.
  intros st reg. unfold map_rep, Rmp, sp_ok, mp_get, mp_load. split.
  - intros (G & C & A & B & H). split; [|split; [|split]]; auto.
    intros fd. rewrite G. apply alookup_fm_get.
  - intros (G & C & (A & B) & H). split; [|split; [|split; [|split]]]; auto.
    intros fd. rewrite G. symmetry. apply alookup_fm_get.
Qed.

(* a new event loop: connStore.init -- [l_reg] of [init_world] is [] *)
Lemma link_map_init : map_rep mp_init [].
Proof. apply map_rep_Rmp. exact Rmp_init. Qed.

(* getConn(fd) is [Loop.alookup fd l_reg] (dispatch, the guards of el_close / el_wake /
   el_register0), loadCount() is [Loop.zlen l_reg] (the `g count` marker) *)
Lemma link_map_obs : forall st reg, map_rep st reg ->
  (forall fd, mp_get st fd = Loop.alookup fd reg) /\
  (forall fd, (match mp_get st fd with Some _ => true | None => false end) =
              (match Loop.alookup fd reg with Some _ => true | None => false end)) /\
  mp_load st = Loop.zlen reg.
Proof.
  intros st reg (G & C & _). split; [exact G|]. split; [|exact C]. intros fd. rewrite G. reflexivity.
Qed.

(* el.register0: addConn(c, idx) under a descriptor that is not registered, for a
   connection that is not registered -- the loop model stores [Loop.aset fd cid l_reg] *)
Lemma link_map_add : forall st reg id fd, map_rep st reg ->
  Loop.alookup fd reg = None -> ~ In id (map snd reg) ->
  map_rep (mp_add st id fd) (Loop.aset fd id reg) /\
  mp_load (mp_add st id fd) = Loop.zlen reg + 1.
Proof.
  intros st reg id fd R Hn Hf.
  assert (R' : map_rep (mp_add st id fd) (Loop.aset fd id reg)).
  { apply map_rep_Rmp. rewrite aset_fm_add. apply mp_sim_add; [apply map_rep_Rmp; exact R|].
    split; [rewrite <- alookup_fm_get; exact Hn|exact Hf]. }
  split; [exact R'|].
  destruct R as (_ & _ & A & B & _). destruct R' as (_ & C' & _). rewrite C'.
  apply (aset_fresh reg fd id A B Hn Hf).
Qed.

(* el.close: delConn(c) for the connection registered under fd -- the loop model stores
   [Loop.aremove fd l_reg] *)
Lemma link_map_del : forall st reg id fd, map_rep st reg -> Loop.alookup fd reg = Some id ->
  exists st', mp_del st id = Ret st' /\ map_rep st' (Loop.aremove fd reg) /\
    mp_load st' = Loop.zlen reg - 1.
Proof.
  intros st reg id fd R Hl. pose proof R as (_ & _ & A & B & _).
  destruct (mp_sim_del st reg id (proj1 (map_rep_Rmp st reg) R)) as (st' & E & R').
  - cbn [sp_pre]. apply (alookup_some_val reg fd). exact Hl.
  - cbn [sp_step] in R'. rewrite (filter_val_aremove reg fd id A B Hl) in R'.
    apply map_rep_Rmp in R'. exists st'. split; [exact E|]. split; [exact R'|].
    destruct R' as (_ & C' & _). rewrite C'. apply (LoopAState.zlen_aremove fd id reg A Hl).
Qed.

(* el.closeConns: iterate with the visitor that closes (hence removes) the visited
   connection.  No panic; every registered connection is visited exactly once; the registry
   ends representing []; and the visit order, read as the `pick` lines of the loop model,
   is an order in which [close_conns] empties [l_reg] *)
Lemma link_map_shutdown : forall st reg m k, map_rep st reg -> (forall fd, del_pred m k fd = true) ->
  exists st' vis, mp_iterate st m k (-1) = Ret (st', vis) /\ map_rep st' [] /\
    NoDup vis /\ Permutation vis (map snd reg) /\ empties_by reg vis.
Proof.
  intros st reg m k R Ha. pose proof R as (_ & _ & A & B & _).
  destruct (mp_sim_iter st reg m k (proj1 (map_rep_Rmp st reg) R)) as (st' & vis & E & R' & Hn & Hp).
  cbn [sp_step] in R'. rewrite filter_none in R' by (intros p _; rewrite Ha; reflexivity).
  exists st', vis. split; [exact E|]. split; [apply map_rep_Rmp; exact R'|].
  split; [exact Hn|]. split; [exact Hp|]. apply perm_empties; assumption.
Qed.

(* ====================================================================== *)
(* gc_opt build: conn_matrix.go, ROW x COL (the code: 256 x 65536)         *)

Section MatrixLink.
Variables ROW COL : Z.
Hypothesis HROW : 0 < ROW.
Hypothesis HCOL : 1 < COL.

Definition mat_rep (st : matst) (reg : list (Z * Z)) : Prop :=
  matrix_inv ROW COL st /\
  (forall fd, mx_get st fd = Loop.alookup fd reg) /\
  mx_load ROW st = Loop.zlen reg /\
  NoDup (map fst reg) /\ NoDup (map snd reg).

Lemma link_matrix_init : mat_rep mx_init [].
Proof.
  destruct (C14_matrix_registry_refines_map_partial ROW COL HROW HCOL [] I I (Forall_nil _))
    as (st & outs & E & Iv & G & C & _).
  cbn in E. injection E as <- _.
  split; [exact Iv|]. split; [exact G|]. split; [exact C|]. split; constructor.
Qed.

Lemma link_matrix_obs : forall st reg, mat_rep st reg ->
  (forall fd, mx_get st fd = Loop.alookup fd reg) /\
  (forall fd, (match mx_get st fd with Some _ => true | None => false end) =
              (match Loop.alookup fd reg with Some _ => true | None => false end)) /\
  mx_load ROW st = Loop.zlen reg.
Proof.
  intros st reg (_ & G & C & _). split; [exact G|]. split; [|exact C]. intros fd. rewrite G. reflexivity.
Qed.

(* el.register0 below capacity *)
Lemma link_matrix_add : forall st reg id fd, mat_rep st reg -> Loop.zlen reg < ROW * COL ->
  Loop.alookup fd reg = None -> ~ In id (map snd reg) ->
  mat_rep (mx_add ROW COL st id fd) (Loop.aset fd id reg) /\
  mx_load ROW (mx_add ROW COL st id fd) = Loop.zlen reg + 1.
Proof.
  intros st reg id fd (Iv & G & C & A & B) Hcap Hn Hf.
  destruct (C14_matrix_add ROW COL HROW HCOL st id fd Iv) as (Iv' & G' & C').
  - rewrite C. exact Hcap.
  - rewrite G. exact Hn.
  - intros fd' H. apply Hf. apply (alookup_some_val reg fd'). rewrite <- G. exact H.
  - destruct (aset_fresh reg fd id A B Hn Hf) as (_ & A' & B' & L').
    split; [|rewrite C', C; reflexivity].
    split; [exact Iv'|]. split; [|split; [|split]]; auto.
    + intros fd'. rewrite G', G, LoopInv.alookup_aset. reflexivity.
    + rewrite C', C, L'. reflexivity.
Qed.

(* el.register0 AT capacity (ROW * COL connections registered): addConn drops the
   connection silently; the registry keeps representing R and not [Loop.aset fd id R].
   This is where the association list of the loop model stops being licensed for gc_opt. *)
Lemma link_matrix_add_at_capacity : forall st reg id fd, mat_rep st reg -> Loop.zlen reg = ROW * COL ->
  Loop.alookup fd reg = None ->
  (forall fd', mx_get (mx_add ROW COL st id fd) fd' = Loop.alookup fd' reg) /\
  mx_get (mx_add ROW COL st id fd) fd = None /\
  Loop.alookup fd (Loop.aset fd id reg) = Some id /\
  mx_load ROW (mx_add ROW COL st id fd) = Loop.zlen reg.
Proof.
  intros st reg id fd (Iv & G & C & A & B) Hcap Hn.
  destruct (C14_matrix_add_at_capacity_drops ROW COL HROW HCOL st id fd Iv) as (_ & G' & C').
  - rewrite C. exact Hcap.
  - split; [intros fd'; rewrite G', G; reflexivity|]. split; [rewrite G', G; exact Hn|].
    split; [rewrite LoopInv.alookup_aset, Z.eqb_refl; reflexivity|rewrite C', C; reflexivity].
Qed.

(* el.close: delConn(c); the relocation of the last entry is invisible *)
Lemma link_matrix_del : forall st reg id fd, mat_rep st reg -> Loop.alookup fd reg = Some id ->
  exists st', mx_del ROW COL st id = Ret st' /\ mat_rep st' (Loop.aremove fd reg) /\
    mx_load ROW st' = Loop.zlen reg - 1.
Proof.
  intros st reg id fd (Iv & G & C & A & B) Hl.
  destruct (C14_matrix_del_relocation_invisible ROW COL HROW HCOL st id fd Iv) as (st' & E & Iv' & G' & C').
  - rewrite G. exact Hl.
  - exists st'. split; [exact E|].
    pose proof (LoopAState.zlen_aremove fd id reg A Hl) as L'.
    split; [|rewrite C', C; reflexivity].
    split; [exact Iv'|]. split; [|split; [|split]].
    + intros fd'. rewrite G', G, LoopInv.alookup_aremove. reflexivity.
    + rewrite C', C, L'. reflexivity.
    + apply LoopAState.nodup_aremove. exact A.
    + apply nodup_vals_aremove. exact B.
Qed.

(* el.closeConns *)
Lemma link_matrix_shutdown : forall st reg m k, mat_rep st reg -> (forall fd, del_pred m k fd = true) ->
  exists st' vis, mx_iterate ROW COL st m k (-1) = Ret (st', vis) /\ mat_rep st' [] /\
    NoDup vis /\ Permutation vis (map snd reg) /\ empties_by reg vis.
Proof.
  intros st reg m k (Iv & G & C & A & B) Ha.
  destruct (C14_matrix_iterate_delete_all_empties ROW COL HROW HCOL st m k Iv Ha)
    as (st' & vis & E & Hn & Hin & _ & Iv' & G' & C').
  assert (Hp : Permutation vis (map snd reg)).
  { apply NoDup_Permutation; [exact Hn|exact B|]. intros id. rewrite Hin. split.
    - intros (fd & H). apply (alookup_some_val reg fd). rewrite <- G. exact H.
    - intros H. apply in_map_iff in H. destruct H as ([fd id'] & E' & H). cbn [snd] in E'. subst id'.
      exists fd. rewrite G. apply pair_alookup; assumption. }
  exists st', vis. split; [exact E|]. split.
  - split; [exact Iv'|]. split; [intros fd; rewrite G'; reflexivity|]. split; [rewrite C'; reflexivity|].
    split; constructor.
  - split; [exact Hn|]. split; [exact Hp|]. apply perm_empties; assumption.
Qed.

End MatrixLink.

(* ====================================================================== *)
(* the side conditions, from the loop model                                 *)

(* values distinct from keys distinct + "a connection is registered under one descriptor" *)
Lemma vals_nodup_of_inj : forall reg : list (Z * Z), NoDup (map fst reg) ->
  (forall fd1 fd2 id, Loop.alookup fd1 reg = Some id -> Loop.alookup fd2 reg = Some id -> fd1 = fd2) ->
  NoDup (map snd reg).
Proof.
  induction reg as [|[k v] r IH]; intros Hk Hinj; cbn [map snd]; [constructor|].
  inversion Hk as [|? ? Hk1 Hk2]; subst. cbn [fst] in *. constructor.
  - intros Hin. apply in_map_iff in Hin. destruct Hin as ([k' v'] & E & Hin). cbn [snd] in E. subst v'.
    assert (Hne : k' <> k).
    { intros ->. apply Hk1. apply in_map_iff. exists (k, v). auto. }
    apply Hne. apply (Hinj k' k v).
    + cbn [Loop.alookup]. destruct (Z.eqb_spec k' k); [contradiction|]. apply pair_alookup; assumption.
    + cbn [Loop.alookup]. rewrite Z.eqb_refl. reflexivity.
  - apply IH; [exact Hk2|]. intros fd1 fd2 id H1 H2.
    assert (Hx : forall fd, Loop.alookup fd r = Some id -> Loop.alookup fd ((k, v) :: r) = Some id).
    { intros fd H. cbn [Loop.alookup]. destruct (Z.eqb_spec fd k) as [->|]; [|exact H].
      exfalso. apply Hk1. apply (LoopAState.alookup_some_in k id r). exact H. }
    apply (Hinj fd1 fd2 id); apply Hx; assumption.
Qed.

(* [Rst] is the relation between the model state and the C04 / C07 checkers that
   Proofs/LoopATop.v proves to hold along every run (r_nd_reg, r_reg, r_open are fields) *)
Lemma loop_reg_distinct : forall L P N m s, LoopAState.Rst L P N m s ->
  NoDup (map fst (Loop.l_reg s)) /\ NoDup (map snd (Loop.l_reg s)).
Proof.
  intros L P N m s R. pose proof (LoopAState.r_nd_reg _ _ _ _ _ R) as Hk. split; [exact Hk|].
  apply vals_nodup_of_inj; [exact Hk|]. intros fd1 fd2 id H1 H2.
  destruct (LoopAState.r_reg _ _ _ _ _ R fd1 id H1) as (E1 & _).
  destruct (LoopAState.r_reg _ _ _ _ _ R fd2 id H2) as (E2 & _). congruence.
Qed.

(* el_register0 / el_accept pass the [fd_in_use] guard: the descriptor is not registered
   and neither is the connection -- the preconditions of addConn in C14 (sp_pre (OAdd ..)) *)
Lemma loop_register_guard : forall L P N m s cid, LoopAState.Rst L P N m s ->
  Loop.fd_in_use s (Loop.c_fd (Loop.getc s cid)) = false ->
  Loop.alookup (Loop.c_fd (Loop.getc s cid)) (Loop.l_reg s) = None /\
  ~ In cid (map snd (Loop.l_reg s)).
Proof.
  intros L P N m s cid R Hg. unfold Loop.fd_in_use in Hg.
  destruct (Loop.alookup (Loop.c_fd (Loop.getc s cid)) (Loop.l_reg s)) as [x|] eqn:E; [discriminate|].
  split; [reflexivity|]. intros Hin. apply in_map_iff in Hin. destruct Hin as ([fd id] & E' & Hin).
  cbn [snd] in E'. subst id.
  pose proof (pair_alookup _ fd cid (LoopAState.r_nd_reg _ _ _ _ _ R) Hin) as Hl.
  destruct (LoopAState.r_reg _ _ _ _ _ R fd cid Hl) as (Efd & _). rewrite Efd in E. congruence.
Qed.

(* el_close past its guard (connection opened, its descriptor registered): the entry
   under that descriptor is this very connection, so [aremove (c_fd c)] is delConn(c) *)
Lemma loop_close_guard : forall L P N m s cid x, LoopAState.Rst L P N m s ->
  Loop.c_opened (Loop.getc s cid) = true ->
  Loop.alookup (Loop.c_fd (Loop.getc s cid)) (Loop.l_reg s) = Some x -> x = cid.
Proof.
  intros L P N m s cid x R Ho Hl.
  destruct (LoopAState.r_open _ _ _ _ _ R cid Ho) as [(_ & Hn)|(_ & Hs & _)];
    unfold LoopAState.regs in *; congruence.
Qed.

(* what the three state changes of the loop model do to [l_reg] *)
Lemma loop_reg_updates : forall s r,
  Loop.l_reg (Loop.set_reg s r) = r /\
  (forall cid c, Loop.l_reg (Loop.setc s cid c) = Loop.l_reg s) /\
  (forall u lo f, Loop.l_reg (Loop.set_queues s u lo f) = Loop.l_reg s).
Proof. intros. split; [reflexivity|]. split; reflexivity. Qed.

(* ====================================================================== *)

Theorem registry_link :
  (* --- conn_map.go --- *)
  map_rep mp_init [] /\
  (forall st reg, map_rep st reg ->
     (forall fd, mp_get st fd = Loop.alookup fd reg) /\
     (forall fd, (match mp_get st fd with Some _ => true | None => false end) =
                 (match Loop.alookup fd reg with Some _ => true | None => false end)) /\
     mp_load st = Loop.zlen reg) /\
  (forall st reg id fd, map_rep st reg -> Loop.alookup fd reg = None -> ~ In id (map snd reg) ->
     map_rep (mp_add st id fd) (Loop.aset fd id reg) /\
     mp_load (mp_add st id fd) = Loop.zlen reg + 1) /\
  (forall st reg id fd, map_rep st reg -> Loop.alookup fd reg = Some id ->
     exists st', mp_del st id = Ret st' /\ map_rep st' (Loop.aremove fd reg) /\
       mp_load st' = Loop.zlen reg - 1) /\
  (forall st reg m k, map_rep st reg -> (forall fd, del_pred m k fd = true) ->
     exists st' vis, mp_iterate st m k (-1) = Ret (st', vis) /\ map_rep st' [] /\
       NoDup vis /\ Permutation vis (map snd reg) /\ empties_by reg vis) /\
  (* --- conn_matrix.go --- *)
  (forall ROW COL, 0 < ROW -> 1 < COL ->
     mat_rep ROW COL mx_init [] /\
     (forall st reg, mat_rep ROW COL st reg ->
        (forall fd, mx_get st fd = Loop.alookup fd reg) /\
        (forall fd, (match mx_get st fd with Some _ => true | None => false end) =
                    (match Loop.alookup fd reg with Some _ => true | None => false end)) /\
        mx_load ROW st = Loop.zlen reg) /\
     (forall st reg id fd, mat_rep ROW COL st reg -> Loop.zlen reg < ROW * COL ->
        Loop.alookup fd reg = None -> ~ In id (map snd reg) ->
        mat_rep ROW COL (mx_add ROW COL st id fd) (Loop.aset fd id reg) /\
        mx_load ROW (mx_add ROW COL st id fd) = Loop.zlen reg + 1) /\
     (forall st reg id fd, mat_rep ROW COL st reg -> Loop.zlen reg = ROW * COL ->
        Loop.alookup fd reg = None ->
        (forall fd', mx_get (mx_add ROW COL st id fd) fd' = Loop.alookup fd' reg) /\
        mx_get (mx_add ROW COL st id fd) fd = None /\
        Loop.alookup fd (Loop.aset fd id reg) = Some id /\
        mx_load ROW (mx_add ROW COL st id fd) = Loop.zlen reg) /\
     (forall st reg id fd, mat_rep ROW COL st reg -> Loop.alookup fd reg = Some id ->
        exists st', mx_del ROW COL st id = Ret st' /\ mat_rep ROW COL st' (Loop.aremove fd reg) /\
          mx_load ROW st' = Loop.zlen reg - 1) /\
     (forall st reg m k, mat_rep ROW COL st reg -> (forall fd, del_pred m k fd = true) ->
        exists st' vis, mx_iterate ROW COL st m k (-1) = Ret (st', vis) /\ mat_rep ROW COL st' [] /\
          NoDup vis /\ Permutation vis (map snd reg) /\ empties_by reg vis)) /\
  (* --- the emptying orders of close_conns are exactly the visit lists --- *)
  (forall reg vis, NoDup (map fst reg) -> NoDup (map snd reg) ->
     (empties_by reg vis <-> NoDup vis /\ Permutation vis (map snd reg))) /\
  (* --- the side conditions hold in the loop model --- *)
  (forall L P N m s, LoopAState.Rst L P N m s ->
     NoDup (map fst (Loop.l_reg s)) /\ NoDup (map snd (Loop.l_reg s))) /\
  (forall L P N m s cid, LoopAState.Rst L P N m s ->
     Loop.fd_in_use s (Loop.c_fd (Loop.getc s cid)) = false ->
     Loop.alookup (Loop.c_fd (Loop.getc s cid)) (Loop.l_reg s) = None /\
     ~ In cid (map snd (Loop.l_reg s))) /\
  (forall L P N m s cid x, LoopAState.Rst L P N m s ->
     Loop.c_opened (Loop.getc s cid) = true ->
     Loop.alookup (Loop.c_fd (Loop.getc s cid)) (Loop.l_reg s) = Some x -> x = cid).
Proof.
  split; [exact link_map_init|]. split; [exact link_map_obs|]. split; [exact link_map_add|].
  split; [exact link_map_del|]. split; [exact link_map_shutdown|].
  split.
  { intros ROW COL HROW HCOL.
    split; [exact (link_matrix_init ROW COL HROW HCOL)|].
    split; [exact (link_matrix_obs ROW COL)|].
    split; [exact (link_matrix_add ROW COL HROW HCOL)|].
    split; [exact (link_matrix_add_at_capacity ROW COL HROW HCOL)|].
    split; [exact (link_matrix_del ROW COL HROW HCOL)|].
    exact (link_matrix_shutdown ROW COL HROW HCOL). }
  split.
  { intros reg vis Hk Hv. split.
    - apply empties_perm; assumption.
    - intros (Hn & Hp). apply perm_empties; assumption. }
  split; [exact loop_reg_distinct|]. split; [exact loop_register_guard|]. exact loop_close_guard.
Qed.

Print Assumptions registry_link.
