(* Specification vocabulary for C16: the boolean predicates on byte strings the
   statements are phrased with (definitions only). *)
From GV Require Import Lib.Trace Model.Arith Model.Addr.
Open Scope Z_scope.

(* a byte that url.unescape accepts literally in host / zone mode, or '%' *)
Definition host_byte_ok (c : Z) : bool :=
  (c =? 37) || (128 <=? c) || negb (should_escape_host c).

(* host[:port] accepted literally by url.parseHost: acceptable bytes, and the
   port position (after the last ']' of a bracketed host, after the last ':'
   otherwise) holds an optional ':' digits *)
Definition host_ok0 (h : bytes) : bool :=
  forallb host_byte_ok h &&
  if has_prefix1 91 h then
    match split_last 93 h with
    | Some (_, cp) => valid_optional_port cp
    | None => false
    end
  else
    match split_last 58 h with
    | Some (_, after) => forallb is_digit after
    | None => true
    end.

Definition host_ok (h : bytes) : bool := negb (is_nil h) && host_ok0 h.

Definition scheme_char (c : Z) : bool := is_alnum c || (c =? 43) || (c =? 45) || (c =? 46).

(* [a-zA-Z][a-zA-Z0-9+.-]* *)
Definition scheme_ok (s : bytes) : bool :=
  match s with
  | [] => false
  | c :: t => is_alpha c && forallb scheme_char t
  end.

(* path part: empty or rooted, without control bytes, '?' and '#' *)
Definition path_byte_ok (c : Z) : bool := negb (is_ctl c) && negb (c =? 35) && negb (c =? 63).

Definition path_ok (p : bytes) : bool :=
  (is_nil p || has_prefix1 47 p) && forallb path_byte_ok p.

Definition seven_schemes : list bytes := s_unix :: inet_schemes.

(* unreserved / sub-delims (RFC 3986 reg-name without pct-encoded); IPv4 is a special case *)
Definition reg_name_char (c : Z) : bool :=
  is_alnum c || mem c [45; 46; 95; 126] || mem c [33; 36; 38; 39; 40; 41; 42; 43; 44; 59; 61].

(* HEXDIG / ":" / "." *)
Definition ipv6_char (c : Z) : bool := ishex c || (c =? 58) || (c =? 46).

(* zone: unreserved, or a literal '%' (written raw, as in udp://[ff02::3%lo0]:9991) *)
Definition zone_char (c : Z) : bool := is_alnum c || mem c [45; 46; 95; 126] || (c =? 37).

Definition grammar_hostb (h : bytes) : bool :=
  match h with
  | [] => false
  | c :: t =>
      if c =? 91 then
        match split_last 93 t with
        | Some (inner, cp) =>
            valid_optional_port cp &&
            (let '(lit, z, found) := cut 37 inner in
             negb (is_nil lit) && forallb ipv6_char lit &&
             (if found then negb (is_nil z) && forallb zone_char z else true))
        | None => false
        end
      else
        let '(name, port, found) := cut 58 h in
        negb (is_nil name) && forallb reg_name_char name && forallb is_digit port
  end.

Definition pow2 (r : Z) : Prop := exists k, 0 <= k /\ r = 2^k.

Definition lowerc (c : Z) : Z := if is_upper c then c + 32 else c.

(* C16, normalisation clause, as worded ("a power of two that is not smaller than
   the request", for every option value of type int): FALSE for requests above
   2^62 (no such int exists; the code panics) -- see cap_normalised_refuted. *)
Definition cap_normalised_full_statement : Prop :=
  forall req, -9223372036854775808 <= req < 9223372036854775808 ->
  exists r, norm_cap max_stream_buffer_cap req = Ret r /\ pow2 r /\ req <= r.
