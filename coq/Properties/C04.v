(* C04 -- per-connection callback lifecycle: open once, close once, nothing after
   close.  Statements only; proofs in Proofs/LoopLifecycle.v. *)
From GV Require Import Lib.Trace Model.Loop Spec.LoopSpec Proofs.LoopLifecycle.
Open Scope Z_scope.

(* For EVERY input stream (kernel results, handler scripts with any API calls
   -- including closes from inside callbacks and calls on other connections --,
   asynchronous requests arriving at any point, shutdown, faults): the sequence
   of callbacks of every connection is a prefix of  OnOpen . OnTraffic* . OnClose. *)
Theorem C04_lifecycle : forall i t, run_history i = Some t -> lifecycle_ok t = true.
Proof. exact lifecycle_holds. Qed.
Print Assumptions C04_lifecycle.

(* requests that reach a closed connection: an asynchronous write completes with the
   closed-connection error and performs no system call; Wake and Close are no-ops *)
Theorem C04_stale_async_write : forall fuel cid d cb w,
  c_opened (wc w cid) = false ->
  run_task fuel (TAsyncWrite cid d cb) w =
  (RErr, if cb then emit (obs "acb" [ASym "write"; AInt cid; ASym "closed"]) w else w).
Proof. exact stale_async_write. Qed.
Print Assumptions C04_stale_async_write.

Theorem C04_stale_wake_close : forall fuel cid w,
  c_opened (wc w cid) = false ->
  el_wake fuel cid w = (RNil, w) /\ (forall e, el_close (S fuel) cid e w = (RNil, w)).
Proof. exact stale_wake_close. Qed.
Print Assumptions C04_stale_wake_close.

(* whenever the loop is between events, the registry holds exactly the connections that
   have been opened and not yet closed (Engine.CountConnections reads its size) *)
Theorem C04_count_matches : forall i t, run_history i = Some t -> count_ok t = true.
Proof. exact count_matches. Qed.
Print Assumptions C04_count_matches.
