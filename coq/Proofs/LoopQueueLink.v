(* Link between the event-loop model (Model/Loop.v, C02) and the task-queue model
   (Model/MSQueue.v, C13).

   Model/Loop.v keeps the two task queues of a poller (urgentAsyncTaskQueue,
   asyncTaskQueue) as plain lists [l_urgent], [l_low : list task]: Poller.Trigger
   ([Loop.enqueue]) appends at the end ([q ++ [t]]), choosing the queue by the length of
   the urgent one; the loop ([drain_urgent] / [drain_low]) takes the head
   ([match l_urgent (st w) with [] => .. | t :: rest => ..]) and stores [rest]; [chores]
   tests both for [].  In gnet each is a lock-free Michael-Scott queue
   (pkg/queue/lock_free_queue.go) used by many producers and one consumer.

   C13 proves that queue linearizable against the sequential specification [qstep] of
   Spec/AtomicQueue.v, with explicit linearization points (the events LinEnq / LinDeq /
   EmptyAt of the ghost history) and the abstraction function [absq].  This file shows
   that this specification IS the list behaviour the loop model uses:

     spec_is_list        [qstep] is [q ++ [v]] / head-and-tail / "empty only for []"
     link_queue_step     one atomic step of the queue model: the represented list is
                         unchanged, or an Enqueue linearizes ([q ++ [nm v]]), or a Dequeue
                         linearizes ([q = nm v :: rest], leaving [rest]), or emptiness is
                         observed ([q = []])                       -- instance of C13_absq_step
     link_trigger        ... phrased on an [lstate]: the linearization of Enqueue in the
                         queue Trigger chose is [Loop.enqueue]
     link_drain          ... the linearization of Dequeue is the [t :: rest] branch of
                         [drain_urgent] / [drain_low] (state [set_queues .. rest ..]), the
                         observation of emptiness is the [[]] branch
     link_dequeue_nil    a Dequeue that answered nil saw the list [] at an instant inside
                         the call                                  -- C13_empty_only_if_empty
     link_length         at quiescence Length() is [Loop.zlen], IsEmpty() is the [] test, and
                         the threshold test of Trigger is the one of [Loop.enqueue]
                                                                    -- C13_length_quiescent
     link_contents       the represented list is: the tasks enqueued and not yet dequeued, in
                         linearization order                        -- C13_fifo_equation
     link_issue_order    the linearization order restricted to one producer is that
                         producer's issue order (for a single producer: the list is the
                         not-yet-dequeued suffix of what it issued, what was dequeued is the
                         prefix; link_issue_order_list: the same on the task list)
                                                                    -- C13_linearizable (brackets)
     link_producer_fifo  with any number of producers, the tasks of one producer are
                         dequeued in the order it issued them      -- C13_producer_fifo

   Tasks: the queue model identifies a *Task by an integer; [nm] maps it to the [task] of
   the loop model (any map: the lemmas hold for every [nm]).
   Nothing about the queue internals is re-proved. *)
From Coq Require Import Lia ZArith List Bool Arith.
From GV Require Import Lib.Trace Lib.Interleave Spec.AtomicQueue Model.MSQueue
  Proofs.MSQueueBase Proofs.MSQueueInv Proofs.AtomicQueueProofs Proofs.MSQueueProofs Properties.C13.
From GV Require Model.Loop.
Import ListNotations.
Open Scope Z_scope.
Open Scope list_scope.

(* ------------------------------------------------------------------ *)
(* 1. the sequential specification of C13 is the list behaviour          *)

Lemma spec_is_list : forall (A : Type) (q : list A),
  (forall v, qstep q (OpEnq v) = (q ++ [v], ResEnq)) /\
  qstep q OpDeq = match q with [] => ([], ResDeq None) | t :: rest => (rest, ResDeq (Some t)) end /\
  (snd (qstep q OpDeq) = ResDeq None <-> q = []).
Proof.
  intros A q. split; [reflexivity|]. split; [reflexivity|].
  destruct q; cbn; split; intros H; try reflexivity; discriminate.
Qed.

(* the linearization events act on the abstract queue as that specification *)
Lemma apply_ev_list : forall e q q', apply_ev e q = Some q' ->
  match e with
  | LinEnq _ id v => q' = q ++ [(id, v)]
  | LinDeq _ id v => q = (id, v) :: q'
  | EmptyAt _ => q = [] /\ q' = []
  | _ => q' = q
  end.
Proof.
  intros e q q' H. destruct e; cbn in H; try (injection H as <-; reflexivity).
  - destruct q as [|it q0]; [discriminate|]. cbn in H.
    destruct (item_eqb it (id, v)) eqn:E; [|discriminate]. injection H as <-.
    apply item_eqb_eq in E. rewrite E. reflexivity.
  - destruct q; [injection H as <-; split; reflexivity|discriminate].
Qed.

Lemma cons_neq_self : forall (A : Type) (x : A) l, x :: l <> l.
Proof. intros A x l H. apply (f_equal (@List.length A)) in H. cbn in H. lia. Qed.

(* ------------------------------------------------------------------ *)
(* 2. representation of a loop-model task list by a queue state           *)

Section QueueLink.
Variable nm : Z -> Loop.task.

(* the list the C13 abstraction function yields, read as tasks *)
Definition qrep (s : gstate) (q : list Loop.task) : Prop := map nm (absq s) = q.

(* both queues of a poller *)
Definition loop_queues (su sl : gstate) (st : Loop.lstate) : Prop :=
  qrep su (Loop.l_urgent st) /\ qrep sl (Loop.l_low st).

Lemma qrep_init : qrep init_state [].
Proof. reflexivity. Qed.

(* a new poller: both queues empty -- [l_urgent] = [l_low] = [] in [init_world] *)
Lemma loop_queues_init : forall st, Loop.l_urgent st = [] -> Loop.l_low st = [] ->
  loop_queues init_state init_state st.
Proof. intros st Hu Hl. unfold loop_queues. rewrite Hu, Hl. split; reflexivity. Qed.

(* one atomic step of the queue model, on the represented list *)
Lemma link_queue_step : forall s l s' q, ms_reachable s -> ms_step s l s' -> qrep s q ->
  (g_hist s' = g_hist s /\ qrep s' q) \/
  (exists e, g_hist s' = e :: g_hist s /\ ev_tid e = fst (fst l) /\
     match e with
     | LinEnq _ _ v => qrep s' (q ++ [nm v])
     | LinDeq _ _ v => exists rest, q = nm v :: rest /\ qrep s' rest
     | EmptyAt _ => q = [] /\ qrep s' []
     | _ => qrep s' q
     end).
Proof.
  intros s l s' q R St Hq. unfold qrep, absq in *.
  destruct (C13_absq_step s l s' R St) as [(Hh & Ha)|(e & Hh & Ht & Ha)].
  - left. split; [exact Hh|]. rewrite Ha. exact Hq.
  - right. exists e. split; [exact Hh|]. split; [exact Ht|].
    apply apply_ev_list in Ha. destruct e.
    + rewrite Ha. exact Hq.
    + rewrite Ha. exact Hq.
    + rewrite Ha, !map_app. cbn [map snd]. f_equal. exact Hq.
    + rewrite Ha in Hq. cbn [map snd] in Hq. exists (map nm (map snd (absq_items s'))). split; [symmetry; exact Hq|reflexivity].
    + destruct Ha as (Ha1 & Ha2). rewrite Ha1 in Hq. rewrite Ha2. split; [symmetry; exact Hq|reflexivity].
    + rewrite Ha. exact Hq.
    + rewrite Ha. exact Hq.
Qed.

(* the same, selected by the linearization event that the step logged *)
Lemma link_lin_enq : forall s l s' q t id v, ms_reachable s -> ms_step s l s' -> qrep s q ->
  g_hist s' = LinEnq t id v :: g_hist s -> qrep s' (q ++ [nm v]).
Proof.
  intros s l s' q t id v R St Hq Hh.
  destruct (link_queue_step s l s' q R St Hq) as [(Hh' & _)|(e & Hh' & _ & He)].
  - rewrite Hh' in Hh. symmetry in Hh. apply cons_neq_self in Hh. contradiction.
  - rewrite Hh' in Hh. injection Hh as ->. exact He.
Qed.

Lemma link_lin_deq : forall s l s' q t id v, ms_reachable s -> ms_step s l s' -> qrep s q ->
  g_hist s' = LinDeq t id v :: g_hist s -> exists rest, q = nm v :: rest /\ qrep s' rest.
Proof.
  intros s l s' q t id v R St Hq Hh.
  destruct (link_queue_step s l s' q R St Hq) as [(Hh' & _)|(e & Hh' & _ & He)].
  - rewrite Hh' in Hh. symmetry in Hh. apply cons_neq_self in Hh. contradiction.
  - rewrite Hh' in Hh. injection Hh as ->. exact He.
Qed.

Lemma link_empty_at : forall s l s' q t, ms_reachable s -> ms_step s l s' -> qrep s q ->
  g_hist s' = EmptyAt t :: g_hist s -> q = [] /\ qrep s' [].
Proof.
  intros s l s' q t R St Hq Hh.
  destruct (link_queue_step s l s' q R St Hq) as [(Hh' & _)|(e & Hh' & _ & He)].
  - rewrite Hh' in Hh. symmetry in Hh. apply cons_neq_self in Hh. contradiction.
  - rewrite Hh' in Hh. injection Hh as ->. exact He.
Qed.

(* ------------------------------------------------------------------ *)
(* 3. Poller.Trigger = [Loop.enqueue]                                     *)

(* the queue Trigger chooses ([low]: asyncTaskQueue, else urgentAsyncTaskQueue) performs
   the linearization step of Enqueue(v); the other queue does not move: the pair then
   represents [Loop.enqueue st is_low (nm v)] *)
Lemma link_trigger : forall su sl st is_low lab t id v su' sl',
  ms_reachable su -> ms_reachable sl -> loop_queues su sl st ->
  (if is_low && (Loop.zlen (Loop.l_urgent st) >=? Loop.l_thr st)
   then su' = su /\ ms_step sl lab sl' /\ g_hist sl' = LinEnq t id v :: g_hist sl
   else sl' = sl /\ ms_step su lab su' /\ g_hist su' = LinEnq t id v :: g_hist su) ->
  loop_queues su' sl' (Loop.enqueue st is_low (nm v)).
Proof.
  intros su sl st is_low lab t id v su' sl' Ru Rl (Hu & Hl) H. unfold Loop.enqueue.
  destruct (is_low && (Loop.zlen (Loop.l_urgent st) >=? Loop.l_thr st)).
  - destruct H as (-> & St & Hh). split; cbn [Loop.set_queues Loop.l_urgent Loop.l_low]; [exact Hu|].
    exact (link_lin_enq sl lab sl' _ t id v Rl St Hl Hh).
  - destruct H as (-> & St & Hh). split; cbn [Loop.set_queues Loop.l_urgent Loop.l_low]; [|exact Hl].
    exact (link_lin_enq su lab su' _ t id v Ru St Hu Hh).
Qed.

(* ------------------------------------------------------------------ *)
(* 4. the drains                                                          *)

(* drain_urgent: the linearization of the Dequeue on the urgent queue is the branch
   [t :: rest] with t the dequeued task, and the loop model's next state
   [set_queues st rest (l_low st) (l_flag st)] is represented by the queues after the
   step; an observation of emptiness is the branch [] *)
Lemma link_drain_urgent : forall su sl st lab su', ms_reachable su -> loop_queues su sl st ->
  ms_step su lab su' ->
  (forall t id v, g_hist su' = LinDeq t id v :: g_hist su ->
     exists rest, Loop.l_urgent st = nm v :: rest /\
       loop_queues su' sl (Loop.set_queues st rest (Loop.l_low st) (Loop.l_flag st))) /\
  (forall t, g_hist su' = EmptyAt t :: g_hist su -> Loop.l_urgent st = [] /\ loop_queues su' sl st).
Proof.
  intros su sl st lab su' R (Hu & Hl) St. split.
  - intros t id v Hh. destruct (link_lin_deq su lab su' _ t id v R St Hu Hh) as (rest & E & Hr).
    exists rest. split; [exact E|]. split; cbn [Loop.set_queues Loop.l_urgent Loop.l_low]; assumption.
  - intros t Hh. destruct (link_empty_at su lab su' _ t R St Hu Hh) as (E & Hr).
    split; [exact E|]. split; [rewrite E; exact Hr|exact Hl].
Qed.

(* drain_low *)
Lemma link_drain_low : forall su sl st lab sl', ms_reachable sl -> loop_queues su sl st ->
  ms_step sl lab sl' ->
  (forall t id v, g_hist sl' = LinDeq t id v :: g_hist sl ->
     exists rest, Loop.l_low st = nm v :: rest /\
       loop_queues su sl' (Loop.set_queues st (Loop.l_urgent st) rest (Loop.l_flag st))) /\
  (forall t, g_hist sl' = EmptyAt t :: g_hist sl -> Loop.l_low st = [] /\ loop_queues su sl' st).
Proof.
  intros su sl st lab sl' R (Hu & Hl) St. split.
  - intros t id v Hh. destruct (link_lin_deq sl lab sl' _ t id v R St Hl Hh) as (rest & E & Hr).
    exists rest. split; [exact E|]. split; cbn [Loop.set_queues Loop.l_urgent Loop.l_low]; assumption.
  - intros t Hh. destruct (link_empty_at sl lab sl' _ t R St Hl Hh) as (E & Hr).
    split; [exact E|]. split; [exact Hu|rewrite E; exact Hr].
Qed.

(* any other step of either queue (loads, failed CAS, helping, the length counter,
   invocations and responses) leaves the represented lists alone *)
Lemma link_other_steps : forall s l s' q, ms_reachable s -> ms_step s l s' -> qrep s q ->
  (forall e, g_hist s' = e :: g_hist s -> lin_free e) -> qrep s' q.
Proof.
  intros s l s' q R St Hq Hf.
  destruct (link_queue_step s l s' q R St Hq) as [(_ & H)|(e & Hh & _ & He)]; [exact H|].
  specialize (Hf e Hh). destruct e; cbn in Hf; try contradiction; exact He.
Qed.

(* the answers: a Dequeue that returned nil saw the represented list [] at an instant
   inside the call (the [] branch is taken only for []) *)
Lemma link_dequeue_nil : forall s newer t older, ms_reachable s ->
  g_hist s = newer ++ RetDeq t None :: older ->
  exists l1 l2 s0, older = l1 ++ EmptyAt t :: l2 /\
    (forall e, In e l1 -> is_boundary t e = false) /\
    ms_reachable s0 /\ g_hist s0 = l2 /\ qrep s0 [].
Proof.
  intros s newer t older R Hh.
  destruct (C13_empty_only_if_empty s newer t older R Hh) as (l1 & l2 & s0 & E & Hb & _ & R0 & H0 & Ha).
  exists l1, l2, s0. split; [exact E|]. split; [exact Hb|]. split; [exact R0|]. split; [exact H0|].
  unfold qrep. rewrite Ha. reflexivity.
Qed.

(* ------------------------------------------------------------------ *)
(* 5. Length / IsEmpty at quiescence                                      *)

Lemma qrep_len : forall s q, qrep s q -> Loop.zlen q = Z.of_nat (List.length (absq s)).
Proof. intros s q <-. unfold Loop.zlen. rewrite map_length. reflexivity. Qed.

Lemma qrep_nil : forall s q, qrep s q -> (q = [] <-> absq s = []).
Proof.
  intros s q <-. split; intros H; [|rewrite H; reflexivity].
  destruct (absq s); [reflexivity|discriminate].
Qed.

(* no operation in flight, fewer than 2^31 tasks queued: Length() is the [Loop.zlen] of the
   list, IsEmpty() is the [] test of [chores], and the threshold test of Poller.Trigger
   (urgentAsyncTaskQueue.Length() >= highPriorityEventsThreshold) is the one of [Loop.enqueue] *)
Lemma link_length : forall s q, ms_reachable s -> quiescent s -> qrep s q -> Loop.zlen q < 2147483648 ->
  q_length s = Loop.zlen q /\
  q_isempty s = match q with [] => true | _ :: _ => false end /\
  (forall thr, (q_length s >=? thr) = (Loop.zlen q >=? thr)).
Proof.
  intros s q R Q Hq Hlt. pose proof (qrep_len s q Hq) as Hl. rewrite Hl in Hlt.
  destruct (C13_length_quiescent s R Q Hlt) as (HL & HE). rewrite <- Hl in HL.
  split; [exact HL|]. split; [|intros thr; rewrite HL; reflexivity].
  pose proof (qrep_nil s q Hq) as Hn. destruct q as [|x q].
  - apply HE. apply Hn. reflexivity.
  - destruct (q_isempty s) eqn:E; [|reflexivity].
    exfalso. assert (H : x :: q = []) by (apply Hn; apply HE; reflexivity). discriminate.
Qed.

End QueueLink.

(* ------------------------------------------------------------------ *)
(* 6. what the list contains, and in which order                          *)

(* issue order: the Enqueue invocations of the history, oldest first; of one thread *)
Fixpoint calls (log : list event) : list item :=
  match log with
  | [] => []
  | CallEnq _ id v :: older => calls older ++ [(id, v)]
  | _ :: older => calls older
  end.

Fixpoint calls_of (p : nat) (log : list event) : list item :=
  match log with
  | [] => []
  | CallEnq t id v :: older => if Nat.eqb t p then calls_of p older ++ [(id, v)] else calls_of p older
  | _ :: older => calls_of p older
  end.

(* linearization order of the Enqueues of one thread (all threads: [enqs]) *)
Fixpoint enqs_of (p : nat) (log : list event) : list item :=
  match log with
  | [] => []
  | LinEnq t id v :: older => if Nat.eqb t p then enqs_of p older ++ [(id, v)] else enqs_of p older
  | _ :: older => enqs_of p older
  end.

(* the abstract queue is the part of the linearization order of the Enqueues that has not
   been dequeued; what has been dequeued is the part before it *)
Lemma link_contents : forall s, ms_reachable s ->
  absq_items s = skipn (List.length (deqs (g_hist s))) (enqs (g_hist s)) /\
  deqs (g_hist s) = firstn (List.length (deqs (g_hist s))) (enqs (g_hist s)).
Proof.
  intros s R. rewrite (C13_fifo_equation s R). split.
  - rewrite skipn_app, skipn_all, Nat.sub_diag. reflexivity.
  - rewrite firstn_app, firstn_all, Nat.sub_diag. cbn [firstn]. rewrite app_nil_r. reflexivity.
Qed.

(* well-bracketed operations (second half of C13_linearizable): for every thread the
   linearization order of its Enqueues is the order in which it invoked them; the last
   invocation is missing exactly while it is pending before its linearization point *)
Lemma bracket_issue_order : forall p log, tphase p log <> PBad ->
  match tphase p log with
  | PEnqCalled id v => calls_of p log = enqs_of p log ++ [(id, v)]
  | _ => calls_of p log = enqs_of p log
  end.
Proof.
  intros p. induction log as [|e older IH]; intros Hok; [reflexivity|].
  destruct (Nat.eq_dec (ev_tid e) p) as [Et|Nt].
  - rewrite (tphase_cons_same p e older Et) in *.
    assert (Hold : tphase p older <> PBad).
    { intros Hb. apply Hok. rewrite Hb. apply phase_step_bad. }
    specialize (IH Hold).
    destruct e; cbn [ev_tid] in Et; subst t; cbn [calls_of enqs_of]; rewrite ?Nat.eqb_refl;
      destruct (tphase p older) as [|id0 v0|id0 v0|b|v0|] eqn:Ep; cbn [phase_step] in *;
      try congruence; try (destruct b; cbn [phase_step] in *; try congruence).
    + (* LinEnq in PEnqCalled *)
      destruct (Nat.eqb id0 id && Z.eqb v0 v) eqn:Eq; [|congruence].
      apply andb_prop in Eq. destruct Eq as (E1 & E2). apply Nat.eqb_eq in E1. apply Z.eqb_eq in E2.
      subst id0 v0. rewrite IH. reflexivity.
    + (* RetDeq r in PDeqCalled true *) destruct r; [congruence|exact IH].
    + (* RetDeq r in PDeqTaken *) destruct r as [v'|]; [|congruence].
      destruct (Z.eqb v0 v'); [exact IH|congruence].
  - rewrite (tphase_cons_other p e older Nt) in *. specialize (IH Hok).
    destruct e; cbn [ev_tid] in Nt; cbn [calls_of enqs_of]; try exact IH;
      (destruct (Nat.eqb_spec t p) as [->|_]; [contradiction|exact IH]).
Qed.

(* with a single producer p, [calls] / [enqs] are its projections *)
Lemma single_producer_calls : forall p log, (forall t id v, In (CallEnq t id v) log -> t = p) ->
  calls log = calls_of p log.
Proof.
  intros p. induction log as [|e older IH]; intros H; [reflexivity|].
  assert (H' : forall t id v, In (CallEnq t id v) older -> t = p) by (intros; eapply H; right; eauto).
  specialize (IH H'). destruct e; cbn [calls calls_of]; try exact IH.
  rewrite (H t id v (or_introl eq_refl)), Nat.eqb_refl, IH. reflexivity.
Qed.

Lemma single_producer_enqs : forall p log, (forall t, tphase t log <> PBad) ->
  (forall t id v, In (CallEnq t id v) log -> t = p) -> enqs log = enqs_of p log.
Proof.
  intros p. induction log as [|e older IH]; intros Hok H; [reflexivity|].
  assert (H' : forall t id v, In (CallEnq t id v) older -> t = p) by (intros; eapply H; right; eauto).
  assert (Hok' : forall t, tphase t older <> PBad).
  { intros t. apply (tphase_suffix_ok t [e] older). apply Hok. }
  specialize (IH Hok' H'). destruct e; cbn [enqs enqs_of]; try exact IH.
  assert (Et : t = p).
  { specialize (Hok t). rewrite (tphase_cons_same t (LinEnq t id v) older eq_refl) in Hok.
    apply phase_lin_enq in Hok. apply tphase_called_in in Hok. exact (H' _ _ _ Hok). }
  rewrite Et, Nat.eqb_refl, IH. reflexivity.
Qed.

(* quiescent state: per producer, linearization order = issue order; for a single
   producer the queue holds the not-yet-dequeued suffix of what it issued, in issue
   order, and what has been dequeued is the prefix *)
Lemma link_issue_order : forall s, ms_reachable s -> quiescent s ->
  (forall p, enqs_of p (g_hist s) = calls_of p (g_hist s)) /\
  (forall p, (forall t id v, In (CallEnq t id v) (g_hist s) -> t = p) ->
     enqs (g_hist s) = calls (g_hist s) /\
     absq_items s = skipn (List.length (deqs (g_hist s))) (calls (g_hist s)) /\
     deqs (g_hist s) = firstn (List.length (deqs (g_hist s))) (calls (g_hist s))).
Proof.
  intros s R Q. destruct (C13_linearizable s R) as (_ & Hok).
  assert (Hper : forall p, enqs_of p (g_hist s) = calls_of p (g_hist s)).
  { intros p. pose proof (bracket_issue_order p (g_hist s) (Hok p)) as B.
    pose proof (inv_threads _ (inv_reachable s R) p) as T. unfold thread_inv in T. rewrite (Q p) in T.
    rewrite T in B. symmetry. exact B. }
  split; [exact Hper|]. intros p Hp.
  assert (E : enqs (g_hist s) = calls (g_hist s)).
  { rewrite (single_producer_enqs p _ Hok Hp), (single_producer_calls p _ Hp). apply Hper. }
  destruct (link_contents s R) as (C1 & C2). rewrite E in C1, C2. auto.
Qed.

(* ... on the represented list: with a single producer and nothing in flight, [l_urgent] /
   [l_low] hold, in issue order, the tasks issued and not yet dequeued *)
Lemma link_issue_order_list : forall (nm : Z -> Loop.task) s p q, ms_reachable s -> quiescent s ->
  (forall t id v, In (CallEnq t id v) (g_hist s) -> t = p) -> qrep nm s q ->
  q = map nm (map snd (skipn (List.length (deqs (g_hist s))) (calls (g_hist s)))).
Proof.
  intros nm s p q R Q Hp Hq. destruct (link_issue_order s R Q) as (_ & H).
  destruct (H p Hp) as (_ & <- & _). symmetry. exact Hq.
Qed.

(* any number of producers: tasks issued by one goroutine leave the queue in that order *)
Lemma link_producer_fifo : forall s t a va b vb l3 l4 l5 n1 n2 tb wb, ms_reachable s ->
  g_hist s = l5 ++ CallEnq t b vb :: l4 ++ CallEnq t a va :: l3 ->
  g_hist s = n1 ++ LinDeq tb b wb :: n2 ->
  exists ta n3 n4, n2 = n3 ++ LinDeq ta a va :: n4.
Proof. exact C13_producer_fifo. Qed.

(* ====================================================================== *)

Theorem task_queue_link : forall nm : Z -> Loop.task,
  (* the sequential specification is the list behaviour *)
  (forall q : list Loop.task,
     (forall v, qstep q (OpEnq v) = (q ++ [v], ResEnq)) /\
     qstep q OpDeq = match q with [] => ([], ResDeq None) | t :: rest => (rest, ResDeq (Some t)) end /\
     (snd (qstep q OpDeq) = ResDeq None <-> q = [])) /\
  (* a new poller *)
  (forall st, Loop.l_urgent st = [] -> Loop.l_low st = [] -> loop_queues nm init_state init_state st) /\
  (* one atomic step of a queue *)
  (forall s l s' q, ms_reachable s -> ms_step s l s' -> qrep nm s q ->
     (g_hist s' = g_hist s /\ qrep nm s' q) \/
     (exists e, g_hist s' = e :: g_hist s /\ ev_tid e = fst (fst l) /\
        match e with
        | LinEnq _ _ v => qrep nm s' (q ++ [nm v])
        | LinDeq _ _ v => exists rest, q = nm v :: rest /\ qrep nm s' rest
        | EmptyAt _ => q = [] /\ qrep nm s' []
        | _ => qrep nm s' q
        end)) /\
  (* Poller.Trigger is Loop.enqueue *)
  (forall su sl st is_low lab t id v su' sl',
     ms_reachable su -> ms_reachable sl -> loop_queues nm su sl st ->
     (if is_low && (Loop.zlen (Loop.l_urgent st) >=? Loop.l_thr st)
      then su' = su /\ ms_step sl lab sl' /\ g_hist sl' = LinEnq t id v :: g_hist sl
      else sl' = sl /\ ms_step su lab su' /\ g_hist su' = LinEnq t id v :: g_hist su) ->
     loop_queues nm su' sl' (Loop.enqueue st is_low (nm v))) /\
  (* drain_urgent / drain_low *)
  (forall su sl st lab su', ms_reachable su -> loop_queues nm su sl st -> ms_step su lab su' ->
     (forall t id v, g_hist su' = LinDeq t id v :: g_hist su ->
        exists rest, Loop.l_urgent st = nm v :: rest /\
          loop_queues nm su' sl (Loop.set_queues st rest (Loop.l_low st) (Loop.l_flag st))) /\
     (forall t, g_hist su' = EmptyAt t :: g_hist su -> Loop.l_urgent st = [] /\ loop_queues nm su' sl st)) /\
  (forall su sl st lab sl', ms_reachable sl -> loop_queues nm su sl st -> ms_step sl lab sl' ->
     (forall t id v, g_hist sl' = LinDeq t id v :: g_hist sl ->
        exists rest, Loop.l_low st = nm v :: rest /\
          loop_queues nm su sl' (Loop.set_queues st (Loop.l_urgent st) rest (Loop.l_flag st))) /\
     (forall t, g_hist sl' = EmptyAt t :: g_hist sl -> Loop.l_low st = [] /\ loop_queues nm su sl' st)) /\
  (forall s l s' q, ms_reachable s -> ms_step s l s' -> qrep nm s q ->
     (forall e, g_hist s' = e :: g_hist s -> lin_free e) -> qrep nm s' q) /\
  (* a nil answer *)
  (forall s newer t older, ms_reachable s -> g_hist s = newer ++ RetDeq t None :: older ->
     exists l1 l2 s0, older = l1 ++ EmptyAt t :: l2 /\
       (forall e, In e l1 -> is_boundary t e = false) /\
       ms_reachable s0 /\ g_hist s0 = l2 /\ qrep nm s0 []) /\
  (* Length / IsEmpty *)
  (forall s q, ms_reachable s -> quiescent s -> qrep nm s q -> Loop.zlen q < 2147483648 ->
     q_length s = Loop.zlen q /\
     q_isempty s = match q with [] => true | _ :: _ => false end /\
     (forall thr, (q_length s >=? thr) = (Loop.zlen q >=? thr))) /\
  (* contents and order *)
  (forall s, ms_reachable s ->
     absq_items s = skipn (List.length (deqs (g_hist s))) (enqs (g_hist s)) /\
     deqs (g_hist s) = firstn (List.length (deqs (g_hist s))) (enqs (g_hist s))) /\
  (forall s, ms_reachable s -> quiescent s ->
     (forall p, enqs_of p (g_hist s) = calls_of p (g_hist s)) /\
     (forall p, (forall t id v, In (CallEnq t id v) (g_hist s) -> t = p) ->
        enqs (g_hist s) = calls (g_hist s) /\
        absq_items s = skipn (List.length (deqs (g_hist s))) (calls (g_hist s)) /\
        deqs (g_hist s) = firstn (List.length (deqs (g_hist s))) (calls (g_hist s)))) /\
  (forall s p q, ms_reachable s -> quiescent s ->
     (forall t id v, In (CallEnq t id v) (g_hist s) -> t = p) -> qrep nm s q ->
     q = map nm (map snd (skipn (List.length (deqs (g_hist s))) (calls (g_hist s))))) /\
  (forall s t a va b vb l3 l4 l5 n1 n2 tb wb, ms_reachable s ->
     g_hist s = l5 ++ CallEnq t b vb :: l4 ++ CallEnq t a va :: l3 ->
     g_hist s = n1 ++ LinDeq tb b wb :: n2 ->
     exists ta n3 n4, n2 = n3 ++ LinDeq ta a va :: n4).
Proof.
  intros nm.
  split; [exact (spec_is_list Loop.task)|]. split; [exact (loop_queues_init nm)|].
  split; [exact (link_queue_step nm)|]. split; [exact (link_trigger nm)|].
  split; [exact (link_drain_urgent nm)|]. split; [exact (link_drain_low nm)|].
  split; [exact (link_other_steps nm)|]. split; [exact (link_dequeue_nil nm)|].
  split; [exact (link_length nm)|]. split; [exact link_contents|].
  split; [exact link_issue_order|]. split; [exact (link_issue_order_list nm)|]. exact link_producer_fifo.
Qed.

Print Assumptions task_queue_link.
