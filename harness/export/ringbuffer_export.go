//go:build verif

//verif:target pkg/pool/ringbuffer/export_verif.go

package ringbuffer

import "sync/atomic"

// VerifMaxSize exposes the calibrated size limit above which Put drops a
// buffer instead of pooling it (0 = not calibrated yet).  The calibration
// policy is an oracle input of the C12 model, not a prediction.
func (p *Pool) VerifMaxSize() int { return int(atomic.LoadUint64(&p.maxSize)) }
