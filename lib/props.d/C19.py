LOOP_SWAP = ["eventloop_unix.go", "connection_unix.go", "connection_linux.go", "acceptor_unix.go",
             "listener_unix.go", "pkg/netpoll/poller_epoll_default.go", "pkg/io/io_linux.go",
             "pkg/socket/sock_cloexec.go", "pkg/socket/fd_unix.go"]

PROP = dict(
    drivers=[dict(cmd="drv-engine", family="engine", netns=True, unix_swap=LOOP_SWAP, args=["-focus", "control"])],
    rule="a case is one engine life: the driver starts the REAL engine from the current tree (tcp/unix/udp, 1/2/4 loops, reactor or "
         "reuse-port, LT/ET, ticker on/off, 1-2 listeners; or a Client), and issues control calls (Validate, CountConnections, Dup, "
         "DupListener, Engine.Register with address / connection / no target / failing dial, EventLoop.Register / Enroll / Execute with "
         "nil arguments, Engine.Stop and gnet.Stop with live and expired contexts, context expiry) from 1..4 goroutines in every phase: on "
         "a zero Engine{}, on the handle captured in OnBoot while OnBoot is still running (pinned), while running, during shutdown "
         "(pinned inside OnShutdown, or after Wait and before inShutdown is set), and after shutdown; batches of calls are issued "
         "concurrently; after every op the harness waits for quiescence and reports the events of that window per thread; the extracted "
         "model replays the ops and must predict every result class, every callback per thread, the hidden flags at probes and which "
         "registrations never delivered; the direct oracle is the property's table evaluated on the observed phase, 'nil only with "
         "inShutdown set', 'one result per accepted registration, conn xor error, channel closed after it'; non-trivial = a pinned phase, "
         "a registration, a blocking Stop or a batch occurred; distinct by hash of the op lines",
    trusted=["harness/shim/vunix (x/sys/unix wrappers, import-swapped into scratch copies of the listed gnet files); used for pause "
             "points (pin a thread at a system call), write-failure injection and poller idleness, not for results",
             "harness/export/engine_export.go (read-only access to the engine's cancel / inShutdown flags and loop count; setter of the "
             "package variable shutdownPollInterval)",
             "the quiescence detection of drv-engine (an op's window closes when every foreseeable consequence has been "
             "seen and nothing has happened for 2.5 ms): a late event would show up as a correspondence failure, never as agreement"],
    assumptions=["context.WithCancel, errgroup.Group.Wait, sync.Map, channels and the ants worker pool behave as documented (modelled as "
                 "a cancel flag, a join on the loop/ticker threads, a presence bit, a one-shot signal, a spawned thread)",
                 "the wake-up guarantee of C03: a polling loop with a queued task eventually runs it (a loop with a non-empty queue is enabled)",
                 "sync/atomic is sequentially consistent: an interleaving of the modelled synchronisation operations is the unit of concurrency",
                 "kernel failures of epoll_create1/eventfd/epoll_ctl during start are not part of THIS model (the start sequence with those failures is Model/Start.v, checked under C07); failures of accept (other than the fatal-error exit) and of the "
                 "worker pool's Submit are not modelled",
                 "user callbacks terminate; the scheduler is weakly fair (needed to turn 'no stuck state + decreasing measure' into termination)"],
)
