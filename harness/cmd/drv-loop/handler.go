package main

import (
	"bytes"
	"errors"
	"fmt"
	"net"
	"sync"
	"time"

	gnet "github.com/panjf2000/gnet/v2"

	"verifharness/tr"
)

// connInfo is the harness's ground truth about one connection (for the oracles).
type connInfo struct {
	mcid          int // number in the modelled loop, -1 = served by another loop (oracle-only)
	cid           int
	c             gnet.Conn
	opened        bool
	closed        bool
	closeErr      bool
	closedInSweep bool   // OnClose ran after engine shutdown had been requested
	consumed      int    // bytes consumed by the handler so far
	accepted      []byte // bytes accepted by write operations, in effect order
	udp           bool
	localReq      bool // a local close was requested for it
	traffic       int
	badAfter      bool
	unflushed     bool     // ReadFrom without a following Flush: outside the property's write operations
	sender        *peer    // UDP: the sender of the datagram this identity stands for
	asyncIssued   [][]byte // payloads of asynchronous writes with callback, in issue order
	asyncDone     int
	untracked     bool  // an asynchronous write without callback was issued: effect point unknown to the oracle
	g             int64 // goroutine of the connection's first callback: its event loop (guarded by handler.mu)
	inCb          int   // callbacks of this connection in progress (nesting on the owner goroutine is legitimate)
}

type handler struct {
	gnet.BuiltinEventEngine
	rec       *recorder
	rnd       *tr.Rand
	mu        sync.Mutex
	eng       gnet.Engine
	byC       map[gnet.Conn]*connInfo
	all       []*connInfo
	cfg       *caseCfg
	nCbs      int
	w         *tr.Writer
	curBy     map[int64]*connInfo // per goroutine: connection of the innermost callback in progress
	udpPeers  map[string]*peer
	third     *net.UDPConn // a socket that is nobody's peer: the target of SendTo on connected client sockets
	thirdExp  [][]byte
	inTraffic chan struct{}
	parkUDP   bool // the next datagram callback parks the loop (udp burst step)
	pending   []*pendingAcb
	lastPend  *pendingAcb
	release   chan struct{}
}

func (h *handler) OnBoot(eng gnet.Engine) gnet.Action {
	h.eng = eng
	return gnet.None
}

// OnShutdown runs on the stopper goroutine right before the exit task is sent to the loops:
// this is the moment the `stop` request enters the loop's input stream.
func (h *handler) OnShutdown(gnet.Engine) {
	h.rec.mu.Lock()
	if !h.rec.stopLogged {
		h.rec.stopLogged = true
		h.rec.shutdown = true
		h.rec.add("op", tr.L("stop"))
	}
	h.rec.mu.Unlock()
}

// obs/op write a trace line of a callback -- only for connections of the modelled loop
func (h *handler) obs(ci *connInfo, l tr.Line) {
	if ci == nil || ci.mcid >= 0 || ci.udp {
		h.rec.Obs(l)
	}
}

func (h *handler) op(ci *connInfo, l tr.Line) {
	if ci == nil || ci.mcid >= 0 || ci.udp {
		h.rec.Op(l)
	}
}

func (h *handler) info(c gnet.Conn) *connInfo {
	h.mu.Lock()
	defer h.mu.Unlock()
	if ci, ok := h.byC[c]; ok {
		return ci
	}
	h.rec.mu.Lock()
	cid, ok := h.rec.fdCid[c.Fd()]
	mcid := -1
	if ok {
		mcid = h.rec.gidM[cid]
	} else {
		cid = -1
	}
	h.rec.mu.Unlock()
	ci := &connInfo{cid: cid, mcid: mcid, c: c}
	h.byC[c] = ci
	h.all = append(h.all, ci)
	return ci
}

func (h *handler) byCid(cid int) *connInfo {
	h.mu.Lock()
	defer h.mu.Unlock()
	for _, ci := range h.all {
		if ci.cid == cid {
			return ci
		}
	}
	return nil
}

func actName(a gnet.Action) string {
	switch a {
	case gnet.Close:
		return "close"
	case gnet.Shutdown:
		return "shutdown"
	}
	return "none"
}

func errSym(err error) string {
	if err == nil {
		return "nil"
	}
	return "err"
}

// ---------------------------------------------------------------- callbacks

// enter/leave: every callback of one stream connection runs on the goroutine of the event loop that owns it
// (C04: callbacks of a connection are serialised on its loop), so no callback of a connection can start on
// another goroutine -- in particular not while one is in progress
func (h *handler) enter(ci *connInfo, cb string) {
	if ci.udp {
		return
	}
	g := goid()
	h.mu.Lock()
	if ci.g == 0 {
		ci.g = g
	}
	own, busy := ci.g, ci.inCb
	ci.inCb++
	h.mu.Unlock()
	if own != g {
		what := "callback-on-foreign-goroutine"
		if busy > 0 {
			what = "callback-overlaps-callback"
		}
		h.rec.Fail("lifecycle", what, fmt.Sprintf("%s of cid %d ran on goroutine %d, its event loop is goroutine %d (%d callback(s) of it in progress)", cb, ci.cid, g, own, busy))
	}
}

func (h *handler) leave(ci *connInfo) {
	if ci.udp {
		return
	}
	h.mu.Lock()
	ci.inCb--
	h.mu.Unlock()
}

func (h *handler) OnOpen(c gnet.Conn) (out []byte, action gnet.Action) {
	ci := h.info(c)
	h.enter(ci, "OnOpen")
	defer h.leave(ci)
	if ci.opened {
		h.rec.Fail("lifecycle", "double-open", fmt.Sprintf("OnOpen twice for cid %d", ci.cid))
	}
	ci.opened = true
	h.obs(ci, tr.L("cb", "open", tr.I(ci.mcid)))
	if h.cfg.sndbuf > 0 {
		_ = c.SetWriteBuffer(h.cfg.sndbuf)
	}
	h.script(ci, "open")
	action = h.pickAction(ci, "open")
	if h.cfg.scenario == "onopen-big-reply" || h.cfg.scenario == "onopen-big-reply-shutdown" || h.cfg.scenario == "open-arm-fails" {
		// a reply far larger than the socket buffer and nothing written before it: conn.open's own
		// write loop meets a short write and then EAGAIN
		out = make([]byte, 400000)
		for i := range out {
			out[i] = byte(i*7 + i/251)
		}
		ci.accepted = append(ci.accepted, out...)
		h.op(ci, tr.L("hret", actName(action), tr.X(out)))
	} else if h.rnd.Chance(h.cfg.pOpenReply) {
		out = h.payload(h.rnd.Pick([]int{1, 5, 100, 3000, 3000, 200000}))
		ci.accepted = append(ci.accepted, out...)
		h.op(ci, tr.L("hret", actName(action), tr.X(out)))
	} else {
		h.op(ci, tr.L("hret", actName(action)))
	}
	return
}

func (h *handler) OnTraffic(c gnet.Conn) gnet.Action {
	ci := h.info(c)
	if c.LocalAddr() != nil && c.LocalAddr().Network() == "udp" && h.cfg.udp {
		return h.onUDP(c)
	}
	h.enter(ci, "OnTraffic")
	defer h.leave(ci)
	if !ci.opened {
		h.rec.Fail("lifecycle", "traffic-before-open", fmt.Sprintf("cid %d", ci.cid))
	}
	if ci.closed {
		h.rec.Fail("lifecycle", "traffic-after-close", fmt.Sprintf("cid %d", ci.cid))
	}
	ci.traffic++
	h.obs(ci, tr.L("cb", "traffic", tr.I(ci.mcid)))
	h.checkInbound(ci, "traffic")
	if h.third != nil && h.cfg.client && h.cfg.proto == "udp" && h.rnd.Chance(30) {
		// C08 "SendTo sends it to the given address", on a CONNECTED client socket: the datagram goes to the
		// address given, not to the connected peer; oracle only (not part of the model)
		data := append([]byte("3RD:"), h.payload(h.rnd.Pick([]int{0, 5, 40}))...)
		h.rec.mu.Lock()
		h.rec.suppressBy[goid()] = true
		h.rec.mu.Unlock()
		_, err := c.SendTo(data, h.third.LocalAddr())
		h.rec.mu.Lock()
		delete(h.rec.suppressBy, goid())
		h.rec.mu.Unlock()
		if err == nil {
			h.mu.Lock()
			h.thirdExp = append(h.thirdExp, data)
			h.mu.Unlock()
		}
	}
	if !ci.udp && h.cfg.proto != "udp" && h.cfg.scenario == "" && h.rnd.Chance(3) {
		// SendTo is a datagram operation: on a stream connection it is refused and nothing is written
		// (a byte on the wire would show up in the outbound stream oracle); oracle only
		h.rec.mu.Lock()
		h.rec.suppressBy[goid()] = true
		h.rec.mu.Unlock()
		n, err := c.SendTo([]byte("not-for-streams"), &net.UDPAddr{IP: net.IPv4(127, 0, 0, 1), Port: 9})
		h.rec.mu.Lock()
		delete(h.rec.suppressBy, goid())
		h.rec.mu.Unlock()
		if err == nil || n != 0 {
			h.rec.Fail("udp-reply", "sendto-on-stream", fmt.Sprintf("SendTo on a stream connection returned (%d, %v)", n, err))
		}
	}
	h.script(ci, "traffic")
	a := h.pickAction(ci, "traffic")
	h.op(ci, tr.L("hret", actName(a)))
	return a
}

func (h *handler) OnClose(c gnet.Conn, err error) gnet.Action {
	ci := h.info(c)
	h.enter(ci, "OnClose")
	defer h.leave(ci)
	h.rec.mu.Lock()
	// the closing sweep: after a stop request / Shutdown action, or after the loop gave up on a fatal accept error
	sweeping := h.rec.shutdown || h.rec.acceptFatal
	if sweeping && ci.mcid >= 0 {
		h.rec.add("op", tr.L("pick", tr.I(ci.mcid)))
	}
	ci.closedInSweep = sweeping
	h.rec.closing[ci.cid] = true
	h.rec.mu.Unlock()
	if !ci.opened {
		h.rec.Fail("lifecycle", "close-without-open", fmt.Sprintf("cid %d", ci.cid))
	}
	if ci.closed {
		h.rec.Fail("lifecycle", "double-close", fmt.Sprintf("cid %d", ci.cid))
	}
	ci.closed = true
	ci.closeErr = err != nil
	h.obs(ci, tr.L("cb", "close", tr.I(ci.mcid), errSym(err)))
	h.script(ci, "close")
	a := h.pickAction(ci, "close")
	h.op(ci, tr.L("hret", actName(a)))
	return a
}

// ---------------------------------------------------------------- UDP

var udpCounter int

func (h *handler) onUDP(c gnet.Conn) gnet.Action {
	h.rec.mu.Lock()
	cid := h.rec.nextCid
	h.rec.nextCid++
	h.rec.mu.Unlock()
	ci := &connInfo{cid: cid, mcid: cid, c: c, udp: true, opened: true}
	src := "noaddr"
	if c.RemoteAddr() != nil {
		src = c.RemoteAddr().String()
	}
	h.obs(ci, tr.L("cb", "udp", tr.I(cid), src))
	// C08: one datagram, one event, right peer, intact payload
	h.mu.Lock()
	sp := h.udpPeers[src]
	h.mu.Unlock()
	if sp == nil {
		h.rec.Fail("udp-remote", "unknown-sender", "RemoteAddr "+src+" is not the address of any sender")
	} else {
		ci.sender = sp
		h.mu.Lock()
		var want []byte
		got, _ := c.Peek(-1)
		trunc := func(b []byte) []byte {
			if len(b) > h.cfg.bufcap {
				return b[:h.cfg.bufcap]
			}
			return b
		}
		h.rec.mu.Lock()
		faults := len(h.rec.injected) > 0
		h.rec.mu.Unlock()
		if faults {
			// a datagram whose recvfrom was made to fail is gone: resynchronise on the next one that matches
			for sp.delivered < len(sp.dgrams) && !bytes.Equal(trunc(sp.dgrams[sp.delivered]), got) {
				sp.delivered++
			}
		}
		if sp.delivered < len(sp.dgrams) {
			want = sp.dgrams[sp.delivered]
		}
		sp.delivered++
		h.mu.Unlock()
		want = trunc(want)
		if !bytes.Equal(got, want) || c.InboundBuffered() != len(want) {
			h.rec.Fail("udp-payload", "differs", fmt.Sprintf("datagram from %s: handler sees %d bytes, sender sent %d", src, len(got), len(want)))
		}
		if h.rnd.Chance(5) {
			// an address SendTo cannot convert is refused with an error, never a panic, and nothing is sent
			h.rec.mu.Lock()
			h.rec.suppressBy[goid()] = true
			h.rec.mu.Unlock()
			bad := []net.Addr{&net.UnixAddr{Net: "bogus", Name: "/x"}, &net.UDPAddr{IP: net.IP{1, 2, 3}, Port: 1}, &net.IPAddr{IP: net.IPv4(127, 0, 0, 1)}}
			var n int
			var err error
			ba := bad[h.rnd.Intn(len(bad))]
			panicked, msg := tr.Guard(func() { n, err = c.SendTo([]byte("x"), ba) })
			h.rec.mu.Lock()
			delete(h.rec.suppressBy, goid())
			h.rec.mu.Unlock()
			if panicked {
				h.rec.Fail("udp-reply", "sendto-bad-address-panics", msg)
			} else if err == nil {
				_ = n
				h.rec.Fail("udp-reply", "sendto-bad-address-accepted", fmt.Sprintf("SendTo with an address it cannot convert (%T %v) returned no error", ba, ba))
			}
		}
		if h.rnd.Chance(20) {
			// SendTo an explicit address (the sender's, in 16-byte IP form); not part of the model: oracle only
			if ua, err := net.ResolveUDPAddr("udp", src); err == nil {
				ua.IP = ua.IP.To16()
				data := h.payload(h.rnd.Pick([]int{0, 1, 33}))
				h.rec.mu.Lock()
				h.rec.suppressBy[goid()] = true
				h.rec.mu.Unlock()
				_, err := c.SendTo(data, ua)
				h.rec.mu.Lock()
				delete(h.rec.suppressBy, goid())
				h.rec.mu.Unlock()
				if err == nil {
					h.mu.Lock()
					sp.expReplies = append(sp.expReplies, data)
					h.mu.Unlock()
				}
			}
		}
	}
	h.script(ci, "udp")
	h.mu.Lock()
	park := h.parkUDP
	h.parkUDP = false
	h.mu.Unlock()
	if park {
		// the loop stays inside this datagram's callback while the driver queues a burst behind it
		select {
		case h.inTraffic <- struct{}{}:
		default:
		}
		select {
		case <-h.release:
		case <-time.After(3 * time.Second):
		}
	}
	a := gnet.None
	if h.cfg.pShutdown > 0 && h.rnd.Intn(1000) < h.cfg.pShutdown {
		// a Shutdown action returned from a datagram's OnTraffic
		h.rec.mu.Lock()
		h.rec.shutdown = true
		h.rec.shutdownAsked = true
		h.rec.mu.Unlock()
		a = gnet.Shutdown
	}
	h.op(ci, tr.L("hret", actName(a)))
	return a
}

// ---------------------------------------------------------------- oracle helpers

// consumed + InboundBuffered must equal the bytes delivered by the kernel so far
func (h *handler) checkInbound(ci *connInfo, where string) {
	if pollOpt && h.cfg.proto == "udp" {
		return // poll_opt serves a connected UDP socket through readUDP: datagram semantics, not a stream
	}
	if ci.udp || ci.closed {
		return
	}
	h.rec.mu.Lock()
	del := len(h.rec.delivered[ci.cid])
	h.rec.mu.Unlock()
	if got := ci.c.InboundBuffered(); ci.consumed+got != del {
		h.rec.Fail("inbound-count", where, fmt.Sprintf("cid %d consumed %d + InboundBuffered %d != delivered %d", ci.cid, ci.consumed, got, del))
	}
}

func (h *handler) expectConsumed(ci *connInfo, got []byte, call string) {
	if pollOpt && h.cfg.proto == "udp" {
		return
	}
	if ci.udp || ci.closed {
		return
	}
	h.rec.mu.Lock()
	del := h.rec.delivered[ci.cid]
	h.rec.mu.Unlock()
	lo, hi := ci.consumed, ci.consumed+len(got)
	if hi > len(del) || !bytes.Equal(del[lo:hi], got) {
		h.rec.Fail("inbound-stream", call, fmt.Sprintf("cid %d: bytes returned by %s at offset %d differ from the stream the kernel delivered", ci.cid, call, lo))
	}
}

func (h *handler) payload(n int) []byte {
	b := make([]byte, n)
	for i := range b {
		b[i] = byte('a' + (h.nCbs+i)%26)
	}
	h.nCbs++
	return b
}

func (h *handler) pickAction(ci *connInfo, cb string) gnet.Action {
	if h.cfg.scenario != "" {
		if h.cfg.scenario == "stale-requests" && cb == "traffic" && ci.cid == 0 {
			ci.localReq = true
			return gnet.Close
		}
		if h.cfg.scenario == "shutdown-sweep" && cb == "close" {
			return gnet.Shutdown // every OnClose of the shutdown sweep asks for shutdown again
		}
		if h.cfg.scenario == "onopen-big-reply-shutdown" && cb == "open" {
			h.rec.mu.Lock()
			h.rec.shutdown = true
			h.rec.shutdownAsked = true
			h.rec.mu.Unlock()
			return gnet.Shutdown
		}
		if (h.cfg.scenario == "shutdown-from-onclose-writev" || h.cfg.scenario == "shutdown-from-onclose-flush") && cb == "close" {
			h.rec.mu.Lock()
			h.rec.shutdown = true
			h.rec.shutdownAsked = true
			h.rec.mu.Unlock()
			return gnet.Shutdown
		}
		if h.cfg.scenario == "flood-then-shutdown" && cb == "traffic" && ci.traffic == 3 {
			// the OnTraffic of the Wake that was queued behind the backlog (in the low-priority queue)
			h.rec.mu.Lock()
			h.rec.shutdown = true
			h.rec.shutdownAsked = true
			h.rec.mu.Unlock()
			return gnet.Shutdown
		}
		if h.cfg.scenario == "shutdown-from-onclose" && cb == "close" {
			h.rec.mu.Lock()
			h.rec.shutdown = true
			h.rec.shutdownAsked = true
			h.rec.mu.Unlock()
			return gnet.Shutdown
		}
		return gnet.None
	}
	p := h.rnd.Intn(1000)
	h.rec.mu.Lock()
	sweeping := h.rec.shutdown
	h.rec.mu.Unlock()
	if cb == "close" && sweeping && h.rnd.Chance(h.cfg.pSweepShutdown) {
		return gnet.Shutdown
	}
	switch {
	case p < h.cfg.pClose:
		if cb != "close" {
			ci.localReq = true
		}
		return gnet.Close
	case p < h.cfg.pClose+h.cfg.pShutdown:
		h.rec.mu.Lock()
		h.rec.shutdown = true
		h.rec.shutdownAsked = true
		h.rec.mu.Unlock()
		return gnet.Shutdown
	}
	return gnet.None
}

// script performs a random list of API calls on the connection inside a callback.
func (h *handler) script(ci *connInfo, cb string) {
	// (per goroutine: in the multi-loop runs callbacks of different loops are in progress at the same time)
	g := goid()
	h.mu.Lock()
	prev := h.curBy[g]
	h.curBy[g] = ci
	h.mu.Unlock()
	defer func() {
		h.mu.Lock()
		if prev == nil {
			delete(h.curBy, g)
		} else {
			h.curBy[g] = prev
		}
		h.mu.Unlock()
	}()
	if h.cfg.scenario != "" {
		h.scenarioScript(ci, cb)
		return
	}
	n := h.rnd.Intn(h.cfg.maxCalls + 1)
	for i := 0; i < n; i++ {
		h.oneCall(ci, cb)
	}
	// most of the time the handler finally consumes what is readable
	if cb == "traffic" && h.rnd.Chance(h.cfg.pDrain) {
		h.doCall(ci, "next", -1, nil, false)
	}
}

func (h *handler) oneCall(ci *connInfo, cb string) {
	c := ci.c
	avail := 0
	if cb != "close" || !ci.udp {
		avail = c.InboundBuffered()
	}
	sizes := []int{0, 1, 2, avail - 1, avail, avail + 1, avail / 2, 7, 100}
	sz := h.rnd.Pick(sizes)
	if sz < 0 {
		sz = 0
	}
	k := h.rnd.Intn(100)
	if ci.udp {
		switch {
		case k < 30:
			h.doCall(ci, "write", 0, h.payload(h.rnd.Pick([]int{0, 1, 10, 500})), false)
		case k < 50:
			h.doCall(ci, "next", sz, nil, false)
		case k < 65:
			h.doCall(ci, "peek", sz, nil, false)
		case k < 75:
			h.doCall(ci, "discard", sz, nil, false)
		case k < 85:
			h.doCall(ci, "read", sz, nil, false)
		default:
			h.doCall(ci, "inbuf", 0, nil, false)
		}
		return
	}
	wsz := h.rnd.Pick(h.cfg.writeSizes)
	if h.cfg.loops > 1 && h.rnd.Chance(15) {
		// EventLoop.Close of THIS loop for a connection that lives on ANOTHER loop: the loop does not know the
		// connection, so the request is ignored -- in no case may it be carried out from here, on a goroutine
		// that is not the owner's (oracle only: no system call, nothing in the model's trace)
		me := goid()
		var o *connInfo
		h.mu.Lock()
		for _, x := range h.all {
			if x != ci && x.opened && !x.closed && !x.udp && x.g != 0 && x.g != me && x.c != nil {
				o = x
				break
			}
		}
		h.mu.Unlock()
		if o != nil {
			err := ci.c.EventLoop().Close(o.c)
			h.w.Hist("foreign-loop-close")
			if err != nil {
				h.rec.Fail("lifecycle", "foreign-close-error", fmt.Sprintf("EventLoop.Close for a connection of another loop returned %v", err))
			}
		}
	}
	if h.cfg.pCross > 0 && h.rnd.Chance(h.cfg.pCross) {
		// act on another open connection of this loop from inside this callback
		var others []*connInfo
		h.mu.Lock()
		for _, o := range h.all {
			if o != ci && o.opened && !o.closed && !o.udp {
				others = append(others, o)
			}
		}
		h.mu.Unlock()
		if len(others) > 0 {
			o := others[h.rnd.Intn(len(others))]
			if h.cfg.crossCloseOnly {
				h.doCall(o, "elclose", 0, nil, false)
				return
			}
			switch h.rnd.Intn(5) {
			case 0:
				h.doCall(o, "elclose", 0, nil, false)
			case 1:
				h.doCall(o, "write", 0, h.payload(h.rnd.Pick([]int{1, 100, 3000})), false)
			case 2:
				h.doCall(o, "flush", 0, nil, false)
			case 3:
				h.doCall(o, "outbuf", 0, nil, false)
			default:
				h.doCall(o, "close", 0, nil, false)
			}
			return
		}
	}
	switch {
	case k < 12:
		h.doCall(ci, "read", sz, nil, false)
	case k < 24:
		h.doCall(ci, "next", sz, nil, false)
	case k < 34:
		h.doCall(ci, "peek", sz, nil, false)
	case k < 44:
		h.doCall(ci, "discard", sz, nil, false)
	case k < 48:
		lim := -1
		if writeToLimits && h.rnd.Chance(45) {
			lim = h.rnd.Pick([]int{0, 1, 3, sz, h.cfg.bufcap / 2, h.cfg.bufcap + 7})
		}
		h.doCall(ci, "writeto", lim, nil, false)
	case k < 49 && !ci.udp && h.cfg.proto != "udp":
		h.doCall(ci, "dup", 0, nil, false)
	case k < 54:
		h.doCall(ci, "inbuf", 0, nil, false)
	case k < 60:
		h.doCall(ci, "outbuf", 0, nil, false)
	case k < 75:
		h.doCall(ci, "write", 0, h.payload(wsz), false)
	case k < 82:
		h.doCall(ci, "writev", h.rnd.Pick([]int{0, 1, 2, 3, 5, 5, 1025, 1500}), h.payload(wsz), false)
	case k < 85:
		h.doCall(ci, "flush", 0, nil, false)
	case k < 89:
		h.doCall(ci, "asyncwrite", 0, h.payload(h.rnd.Pick([]int{1, 50, 2000})), h.rnd.Chance(50))
	case k < 91:
		h.doCall(ci, "asyncwritev", 2, h.payload(h.rnd.Pick([]int{2, 50, 2000})), h.rnd.Chance(50))
	case k < 94:
		h.doCall(ci, "wake", 0, nil, h.rnd.Chance(50))
	case k < 96:
		h.doCall(ci, "close", 0, nil, h.rnd.Chance(50))
	case k < 96+h.cfg.pElClose:
		h.doCall(ci, "elclose", 0, nil, false)
		if h.cfg.client && h.cfg.proto == "udp" && h.rnd.Chance(80) {
			// the recorded finding: AsyncWrite on a closed connected-UDP connection sends at once
			h.doCall(ci, "asyncwrite", 0, h.payload(3), true)
		}
	default:
		h.doCall(ci, "readfrom", 0, h.payload(h.rnd.Pick([]int{0, 1, 100, 5000, wsz})), false)
		if h.rnd.Chance(85) {
			h.doCall(ci, "flush", 0, nil, false)
		}
	}
}

func splitSegs(data []byte, n int) [][]byte {
	if n <= 0 {
		return nil
	}
	segs := make([][]byte, 0, n)
	per := len(data) / n
	for i := 0; i < n; i++ {
		lo, hi := i*per, (i+1)*per
		if i == n-1 {
			hi = len(data)
		}
		segs = append(segs, data[lo:hi])
	}
	return segs
}

func segArgs(segs [][]byte) []string {
	var a []string
	for _, s := range segs {
		a = append(a, tr.X(s))
	}
	return a
}

// sink is the io.Writer handed to Conn.WriteTo: with lim >= 0 it takes at most lim more bytes in
// total and fails a Write it cannot take whole (the io.Writer contract for a short write)
type sink struct {
	bytes.Buffer
	lim int
}

var errSinkFull = errors.New("sink full")

func (s *sink) Write(p []byte) (int, error) {
	if s.lim < 0 || len(p) <= s.lim {
		if s.lim >= 0 {
			s.lim -= len(p)
		}
		return s.Buffer.Write(p)
	}
	n := s.lim
	s.Buffer.Write(p[:n])
	s.lim = 0
	return n, errSinkFull
}

// writeToLimits: the model's `h writeto <lim>` (a WriteTo into a writer that fails part-way)
const writeToLimits = true

// hl builds the `h` input line of a handler call; calls on a connection other than the
// one the callback is for are written `h on <cid> <call> ...`
func (h *handler) hl(ci *connInfo, args ...string) tr.Line {
	h.mu.Lock()
	cur := h.curBy[goid()]
	h.mu.Unlock()
	if cur != nil && cur != ci {
		return tr.L("h", append([]string{"on", tr.I(ci.mcid)}, args...)...)
	}
	return tr.L("h", args...)
}

func (h *handler) doCall(ci *connInfo, call string, n int, data []byte, cb bool) {
	c := ci.c
	rec := h.rec
	gc := goid()
	rec.mu.Lock()
	prevCall := rec.curCallBy[gc]
	rec.curCallBy[gc] = call
	rec.mu.Unlock()
	defer func() {
		rec.mu.Lock()
		if prevCall == "" {
			delete(rec.curCallBy, gc)
		} else {
			rec.curCallBy[gc] = prevCall
		}
		rec.mu.Unlock()
	}()
	switch call {
	case "read":
		h.op(ci, h.hl(ci, "read", tr.I(n)))
		p := make([]byte, n)
		m, err := c.Read(p)
		es := "nil"
		if err != nil {
			es = "short"
		}
		h.obs(ci, tr.L("hr", tr.I(ci.mcid), "read", tr.X(p[:m]), es))
		h.expectConsumed(ci, p[:m], "Read")
		ci.consumed += m
		h.checkInbound(ci, "read")
	case "next":
		h.op(ci, h.hl(ci, "next", tr.I(n)))
		b, err := c.Next(n)
		es := "nil"
		if err != nil {
			es = "short"
		}
		h.obs(ci, tr.L("hr", tr.I(ci.mcid), "next", tr.X(b), es))
		h.expectConsumed(ci, b, "Next")
		ci.consumed += len(b)
		h.checkInbound(ci, "next")
	case "peek":
		h.op(ci, h.hl(ci, "peek", tr.I(n)))
		b, err := c.Peek(n)
		es := "nil"
		if err != nil {
			es = "short"
		}
		h.obs(ci, tr.L("hr", tr.I(ci.mcid), "peek", tr.X(b), es))
		h.expectConsumed(ci, b, "Peek")
		if err == nil && n > 0 && len(b) != n {
			rec.Fail("inbound-stream", "Peek-length", fmt.Sprintf("cid %d Peek(%d) returned %d bytes", ci.cid, n, len(b)))
		}
	case "discard":
		h.op(ci, h.hl(ci, "discard", tr.I(n)))
		m, _ := c.Discard(n)
		h.obs(ci, tr.L("hr", tr.I(ci.mcid), "discard", tr.I(m)))
		ci.consumed += m
		h.checkInbound(ci, "discard")
	case "dup":
		// Conn.Dup hands a descriptor to the user: oracle only (no model line); it stays open until the
		// end of the case, so the socket outlives the connection's own descriptor
		rec.mu.Lock()
		rec.suppressBy[goid()] = true
		rec.mu.Unlock()
		fd, err := c.Dup()
		rec.mu.Lock()
		delete(rec.suppressBy, goid())
		if err == nil {
			delete(rec.owned, fd)
			rec.userFds = append(rec.userFds, fd)
		}
		rec.mu.Unlock()
	case "writeto":
		s := sink{lim: n}
		if n < 0 {
			h.op(ci, h.hl(ci, "writeto"))
		} else {
			h.op(ci, h.hl(ci, "writeto", tr.I(n)))
		}
		m, err := c.WriteTo(&s)
		h.obs(ci, tr.L("hr", tr.I(ci.mcid), "writeto", tr.X(s.Bytes()), tr.I(int(m)), errSym(err)))
		h.expectConsumed(ci, s.Bytes(), "WriteTo")
		ci.consumed += s.Len()
		h.checkInbound(ci, "writeto")
	case "inbuf":
		h.op(ci, h.hl(ci, "inbuf"))
		h.obs(ci, tr.L("hr", tr.I(ci.mcid), "inbuf", tr.I(c.InboundBuffered())))
	case "outbuf":
		h.op(ci, h.hl(ci, "outbuf"))
		ob := c.OutboundBuffered()
		h.obs(ci, tr.L("hr", tr.I(ci.mcid), "outbuf", tr.I(ob)))
		rec.mu.Lock()
		handed := rec.handed[ci.cid]
		rec.mu.Unlock()
		if !ci.closed && !ci.untracked && h.cfg.proto != "udp" && ob != len(ci.accepted)-handed {
			rec.Fail("outbound-count", "OutboundBuffered", fmt.Sprintf("cid %d OutboundBuffered %d != accepted %d - handed %d", ci.cid, ob, len(ci.accepted), handed))
		}
	case "write":
		h.op(ci, h.hl(ci, "write", tr.X(data)))
		m, err := c.Write(data)
		h.obs(ci, tr.L("hr", tr.I(ci.mcid), "write", tr.I(m), errSym(err)))
		if err == nil && ci.udp && ci.sender != nil {
			h.mu.Lock()
			ci.sender.expReplies = append(ci.sender.expReplies, append([]byte(nil), data...))
			h.mu.Unlock()
		}
		if err == nil && !ci.udp {
			ci.accepted = append(ci.accepted, data...)
		} else if err != nil {
			ci.untracked = true // a failed write may have handed part of its data to the kernel
		}
	case "writev":
		segs := splitSegs(data, n)
		h.op(ci, h.hl(ci, append([]string{"writev"}, segArgs(segs)...)...))
		cp := make([][]byte, len(segs))
		copy(cp, segs)
		m, err := c.Writev(cp)
		h.obs(ci, tr.L("hr", tr.I(ci.mcid), "writev", tr.I(m), errSym(err)))
		if err == nil {
			ci.accepted = append(ci.accepted, bytes.Join(segs, nil)...)
		} else {
			ci.untracked = true
		}
	case "flush":
		h.op(ci, h.hl(ci, "flush"))
		err := c.Flush()
		es := errSym(err)
		if err != nil && err.Error() == "gnet: server is going to be shutdown" {
			es = "shutdown"
		}
		h.obs(ci, tr.L("hr", tr.I(ci.mcid), "flush", es))
		ci.unflushed = false
	case "readfrom":
		h.op(ci, h.hl(ci, "readfrom", tr.X(data)))
		m, err := c.ReadFrom(bytes.NewReader(data))
		h.obs(ci, tr.L("hr", tr.I(ci.mcid), "readfrom", tr.I(int(m)), errSym(err)))
		ci.accepted = append(ci.accepted, data...)
		if len(data) > 0 {
			ci.unflushed = true
		}
	case "asyncwrite":
		h.op(ci, h.hl(ci, "asyncwrite", tr.X(data), tr.B(cb)))
		f := h.acb("write", ci, cb, data)
		pe := h.takePend(cb)
		err := c.AsyncWrite(data, f)
		h.refusedIf(err, pe)
		h.obs(ci, tr.L("hr", tr.I(ci.mcid), "asyncwrite", errSym(err)))
	case "asyncwritev":
		segs := splitSegs(data, n)
		h.op(ci, h.hl(ci, append([]string{"asyncwritev", tr.B(cb)}, segArgs(segs)...)...))
		f := h.acb("writev", ci, cb, data)
		pe := h.takePend(cb)
		err := c.AsyncWritev(segs, f)
		h.refusedIf(err, pe)
		h.obs(ci, tr.L("hr", tr.I(ci.mcid), "asyncwritev", errSym(err)))
	case "wake":
		h.op(ci, h.hl(ci, "wake", tr.B(cb)))
		f := h.acb("wake", ci, cb, nil)
		pe := h.takePend(cb)
		err := c.Wake(f)
		h.refusedIf(err, pe)
		h.obs(ci, tr.L("hr", tr.I(ci.mcid), "wake", errSym(err)))
	case "close":
		h.op(ci, h.hl(ci, "close", tr.B(cb)))
		var err error
		if cb {
			f := h.acb("close", ci, true, nil)
			pe := h.takePend(true)
			err = c.CloseWithCallback(f)
			h.refusedIf(err, pe)
		} else {
			err = c.Close()
		}
		ci.localReq = true
		h.obs(ci, tr.L("hr", tr.I(ci.mcid), "close", errSym(err)))
	case "elclose":
		h.op(ci, h.hl(ci, "elclose"))
		ci.localReq = true
		err := c.EventLoop().Close(c)
		es := errSym(err)
		if err != nil && err.Error() == "gnet: server is going to be shutdown" {
			es = "shutdown"
		}
		h.obs(ci, tr.L("hr", tr.I(ci.mcid), "elclose", es))
	}
}

// acb builds the asynchronous callback that logs its invocation
func (h *handler) acb(kind string, ci *connInfo, want bool, data []byte) gnet.AsyncCallback {
	if !want {
		if kind == "write" || kind == "writev" {
			ci.untracked = true
		}
		return nil
	}
	fired := false
	pend := &pendingAcb{kind: kind, cid: ci.cid}
	h.mu.Lock()
	h.pending = append(h.pending, pend)
	h.lastPend = pend
	h.mu.Unlock()
	if (kind == "write" || kind == "writev") && data != nil && !ci.udp && h.cfg.proto != "udp" {
		h.mu.Lock()
		ci.asyncIssued = append(ci.asyncIssued, data)
		h.mu.Unlock()
	}
	return func(c gnet.Conn, err error) error {
		if fired {
			h.rec.Fail("async-callback", "twice:"+kind, fmt.Sprintf("cid %d", ci.cid))
		}
		fired = true
		h.mu.Lock()
		pend.fired = true
		h.mu.Unlock()
		es := errSym(err)
		if err != nil {
			switch err.Error() {
			case "use of closed network connection":
				es = "closed"
			case "gnet: server is going to be shutdown":
				es = "shutdown"
			}
		}
		cid := ci.mcid
		if c == nil {
			cid = -1
		}
		if ci.mcid < 0 && c != nil {
			cid = -2 // not a modelled connection: the line is dropped by h.obs
		}
		if (kind == "write" || kind == "writev") && data != nil && !ci.udp && h.cfg.proto != "udp" {
			// asynchronous writes issued by one goroutine are carried out in issue order (C02/C03)
			h.mu.Lock()
			if ci.asyncDone < len(ci.asyncIssued) && !bytes.Equal(ci.asyncIssued[ci.asyncDone], data) {
				h.rec.Fail("outbound-async-order", kind, fmt.Sprintf("cid %d: asynchronous write #%d carried out is not the #%d issued", ci.cid, ci.asyncDone, ci.asyncDone))
			}
			ci.asyncDone++
			h.mu.Unlock()
		}
		if (kind == "write" || kind == "writev") && err == nil && c != nil {
			ci.accepted = append(ci.accepted, data...) // the asynchronous write took effect now
		} else if (kind == "write" || kind == "writev") && err != nil {
			ci.untracked = true
		}
		h.obs(ci, tr.L("acb", kind, tr.I(cid), es))
		return nil
	}
}

// pendingAcb: one asynchronous request issued with a callback.  A request that was accepted (the call returned
// nil) while the engine keeps running is carried out, and its callback invoked, exactly once (C03/C04)
type pendingAcb struct {
	kind    string
	cid     int
	fired   bool
	refused bool
}

// refusedIf marks the request issued last on this goroutine as not accepted when its call returned an error
func (h *handler) refusedIf(err error, p *pendingAcb) {
	if err != nil && p != nil {
		h.mu.Lock()
		p.refused = true
		h.mu.Unlock()
	}
}

// takePend returns the entry created by the acb call just made on this goroutine (nil when no callback was asked)
func (h *handler) takePend(want bool) *pendingAcb {
	if !want {
		return nil
	}
	h.mu.Lock()
	defer h.mu.Unlock()
	return h.lastPend
}

// checkPending: with the loop idle and no shutdown under way, every accepted request has had its callback
func (h *handler) checkPending() {
	h.mu.Lock()
	defer h.mu.Unlock()
	for _, p := range h.pending {
		if !p.fired && !p.refused {
			h.rec.Fail("async-callback", "never:"+p.kind, fmt.Sprintf("cid %d: the request was accepted and the loop is idle again, its callback has not run", p.cid))
			p.refused = true
		}
	}
}

// scenarioScript: the deterministic handler behaviour of the named scenarios (regression
// corpus for the defects found and fixed; see corpus/C0x/*.trace)
func (h *handler) scenarioScript(ci *connInfo, cb string) {
	big := func(n int) []byte {
		b := make([]byte, n)
		for i := range b {
			b[i] = byte('A' + i%23)
		}
		return b
	}
	switch h.cfg.scenario {
	case "read-after-close":
		if cb == "traffic" {
			h.doCall(ci, "next", -1, nil, false)
			h.doCall(ci, "elclose", 0, nil, false)
		}
	case "write-after-close", "shutdown-from-onclose":
		if cb == "traffic" && ci.traffic == 1 {
			h.doCall(ci, "next", -1, nil, false)
			h.doCall(ci, "write", 0, big(10), false) // fails: EPIPE injected
			h.doCall(ci, "write", 0, big(20), false)
			h.doCall(ci, "writev", 2, big(30), false)
			h.doCall(ci, "readfrom", 0, big(5), false)
			h.doCall(ci, "flush", 0, nil, false)
		}
	case "shutdown-from-onclose-writev":
		if cb == "traffic" && ci.traffic == 1 {
			h.doCall(ci, "next", -1, nil, false)
			h.doCall(ci, "writev", 3, big(30), false) // fails: EPIPE injected; OnClose answers Shutdown
		}
	case "shutdown-from-onclose-flush":
		if cb == "traffic" && ci.traffic == 1 {
			h.doCall(ci, "next", -1, nil, false)
			h.doCall(ci, "write", 0, big(400000), false) // partly buffered behind EAGAIN
		}
	case "peek-from-ring":
		if cb == "traffic" {
			switch ci.traffic {
			case 1: // leave everything in the connection's buffer
			case 2:
				h.doCall(ci, "peek", 10, nil, false) // entirely inside the leftover ring
				h.doCall(ci, "peek", 100, nil, false)
				h.doCall(ci, "peek", 120, nil, false) // spans ring and fresh read buffer
				h.doCall(ci, "discard", 10, nil, false)
				h.doCall(ci, "peek", 10, nil, false)
				h.doCall(ci, "next", -1, nil, false)
			default:
				h.doCall(ci, "next", -1, nil, false)
			}
		}
	case "open-arm-fails":
		if cb == "traffic" {
			h.doCall(ci, "next", -1, nil, false)
		}
	case "onopen-reply-order":
		if cb == "open" {
			h.doCall(ci, "write", 0, big(400000), false)
		}
		if cb == "traffic" {
			h.doCall(ci, "next", -1, nil, false)
		}
	case "lt-partial-flush":
		if cb == "traffic" && ci.traffic == 1 {
			h.doCall(ci, "next", -1, nil, false)
			h.doCall(ci, "readfrom", 0, big(400000), false)
			h.doCall(ci, "flush", 0, nil, false)
			h.doCall(ci, "write", 0, big(1000), false)
		} else if cb == "traffic" {
			h.doCall(ci, "next", -1, nil, false)
		}
	case "writev-eagain":
		if cb == "traffic" && ci.traffic == 1 {
			h.doCall(ci, "next", -1, nil, false)
			h.doCall(ci, "writev", 1500, big(12000), false) // first writev(2): EAGAIN injected
		} else if cb == "traffic" {
			h.doCall(ci, "next", -1, nil, false)
		}
	case "close-drain-error":
		if cb == "traffic" && ci.traffic == 1 {
			h.doCall(ci, "next", -1, nil, false)
			h.doCall(ci, "write", 0, big(300000), false) // partly buffered
			h.doCall(ci, "close", 0, nil, false)         // close request: el.close drains, the drain write fails
		}
	case "shutdown-sweep", "stale-requests", "register-fails":
		if cb == "traffic" {
			h.doCall(ci, "next", -1, nil, false)
		}
	case "data-with-fin-unix-lt", "data-with-fin-unix-et", "data-with-fin-tcp-lt", "data-with-fin-tcp-et":
		if cb == "traffic" {
			h.doCall(ci, "next", -1, nil, false)
			if ci.cid == 0 && ci.traffic == 2 {
				select {
				case h.inTraffic <- struct{}{}:
				default:
				}
				select {
				case <-h.release:
				case <-time.After(3 * time.Second):
				}
			}
		}
	case "error-then-wake", "error-then-edge":
		if cb == "traffic" {
			h.doCall(ci, "next", -1, nil, false)
			if ci.cid == 1 && ci.traffic == 2 {
				select {
				case h.inTraffic <- struct{}{}:
				default:
				}
				select {
				case <-h.release:
				case <-time.After(3 * time.Second):
				}
			}
		}
	case "et-backlog":
		if cb == "traffic" && ci.traffic == 1 {
			h.doCall(ci, "next", -1, nil, false)
			h.doCall(ci, "write", 0, big(100000), false) // partly buffered: the socket is full
			for i := 0; i < 2200; i++ {
				h.doCall(ci, "write", 0, []byte(fmt.Sprintf("%07d ", i)), false) // one list node each
			}
		} else if cb == "traffic" {
			h.doCall(ci, "next", -1, nil, false)
		}
	case "readfrom-after-spill":
		if cb == "traffic" {
			h.doCall(ci, "next", -1, nil, false)
			switch ci.traffic {
			case 2:
				h.doCall(ci, "write", 0, big(150000), false) // what the socket does not take goes to the ring part
				h.doCall(ci, "write", 0, big(50000), false)  // ring part above the cap: a list node
			case 3:
				h.doCall(ci, "readfrom", 0, bytes.Repeat([]byte("#"), 5000), false)
				h.doCall(ci, "flush", 0, nil, false)
			}
		}
	case "writeto-partial-wrapped":
		if cb == "traffic" {
			switch ci.traffic {
			case 3:
				h.doCall(ci, "discard", 700, nil, false)
			case 4:
				h.doCall(ci, "inbuf", 0, nil, false)
				h.doCall(ci, "writeto", 100, nil, false)
				h.doCall(ci, "inbuf", 0, nil, false)
				h.doCall(ci, "writeto", -1, nil, false)
			}
		}
	case "write-fail-del-fail":
		if cb == "traffic" {
			h.doCall(ci, "next", -1, nil, false)
			h.doCall(ci, "write", 0, big(10), false) // the first write of the case fails: EPIPE injected
		}
	case "stale-read0":
		if cb == "traffic" {
			h.doCall(ci, "next", -1, nil, false)
			if ci.cid == 0 && ci.traffic == 2 {
				select {
				case h.inTraffic <- struct{}{}:
				default:
				}
				select {
				case <-h.release:
				case <-time.After(3 * time.Second):
				}
			}
		}
	case "accept-fatal", "onopen-big-reply", "onopen-big-reply-shutdown":
		if cb == "traffic" {
			h.doCall(ci, "next", -1, nil, false)
		}
	case "async-flood", "flood-then-shutdown":
		// the loop is held inside the SECOND OnTraffic (the driver's "park" message, sent once the opening phase is
		// over) until the driver has queued its requests
		if cb == "traffic" && ci.traffic == 2 {
			h.doCall(ci, "next", -1, nil, false)
			select {
			case h.inTraffic <- struct{}{}:
			default:
			}
			select {
			case <-h.release:
			case <-time.After(10 * time.Second):
			}
		} else if cb == "traffic" {
			h.doCall(ci, "next", -1, nil, false)
		}
	case "writev-1500":
		if cb == "traffic" {
			h.doCall(ci, "next", -1, nil, false)
			h.doCall(ci, "writev", 1500, big(3000), false)
		}
	case "stale-del":
		if cb == "traffic" {
			h.doCall(ci, "next", -1, nil, false)
			if ci.traffic < 2 {
				time.Sleep(8 * time.Millisecond) // let the other peer's data arrive: from now on both are readable
				return
			}
			h.mu.Lock()
			var other *connInfo
			for _, o := range h.all {
				if o != ci && o.opened && !o.closed {
					other = o
				}
			}
			h.mu.Unlock()
			if other != nil {
				h.doCall(other, "elclose", 0, nil, false)
			}
		}
	case "queued-write-after-close":
		if cb == "traffic" && ci.traffic == 1 {
			h.doCall(ci, "next", -1, nil, false)
			h.doCall(ci, "write", 0, big(300000), false) // partly buffered (small SO_SNDBUF)
			h.doCall(ci, "flush", 0, nil, false)         // ET + chunk: re-arms itself through a write task
			h.doCall(ci, "elclose", 0, nil, false)
			h.doCall(ci, "readfrom", 0, big(64), false) // refills the buffer of the closed connection
		}
	}
}
