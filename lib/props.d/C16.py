PROP = dict(
    drivers=[dict(cmd="drv-addr", family="addr")],
    rule="wip",
    trusted=[],
    assumptions=[],
)
