// drv-ring drives pkg/buffer/ring.Buffer (C09) with generated operation
// sequences, writes the trace consumed by the extracted model (family "ring")
// and evaluates the direct oracle: a reference []byte FIFO.
package main

import (
	"bytes"
	"errors"
	"flag"
	"fmt"
	"io"
	"strconv"

	"github.com/panjf2000/gnet/v2/pkg/buffer/ring"

	"verifharness/tr"
)

var w *tr.Writer

var errScripted = errors.New("scripted failure")

func errSym(e error) string {
	switch e {
	case nil:
		return "nil"
	case ring.ErrIsEmpty:
		return "empty"
	case io.ErrShortWrite:
		return "short"
	case io.EOF:
		return "eof"
	case errScripted:
		return "err"
	}
	return "other"
}

func errOf(s string) error {
	switch s {
	case "nil":
		return nil
	case "eof":
		return io.EOF
	}
	return errScripted
}

type resp struct {
	k int
	e string
}

func parseScript(a []string) []resp {
	var out []resp
	for i := 0; i+1 < len(a); i += 2 {
		k, err := strconv.Atoi(a[i])
		if err != nil {
			break
		}
		out = append(out, resp{k, a[i+1]})
	}
	return out
}

// scripted io.Reader: entry (k,e) delivers min(len p, k, len src) bytes with e;
// an exhausted script answers (0, EOF).
type sreader struct {
	src     []byte
	script  []resp
	offered []int
}

func (s *sreader) Read(p []byte) (int, error) {
	s.offered = append(s.offered, len(p))
	rp := resp{0, "eof"}
	if len(s.script) > 0 {
		rp = s.script[0]
		s.script = s.script[1:]
	}
	n := rp.k
	if n < 0 {
		n = 0
	}
	if n > len(p) {
		n = len(p)
	}
	if n > len(s.src) {
		n = len(s.src)
	}
	copy(p, s.src[:n])
	s.src = s.src[n:]
	return n, errOf(rp.e)
}

// scripted io.Writer: entry (k,e) accepts min(len p, k) bytes and returns e;
// an exhausted script accepts everything.
type swriter struct {
	script []resp
	recv   []byte
}

func (s *swriter) Write(p []byte) (int, error) {
	if len(s.script) == 0 {
		s.recv = append(s.recv, p...)
		return len(p), nil
	}
	rp := s.script[0]
	s.script = s.script[1:]
	m := rp.k
	if m < 0 {
		m = 0
	}
	if m > len(p) {
		m = len(p)
	}
	s.recv = append(s.recv, p[:m]...)
	return m, errOf(rp.e)
}

// ---------------------------------------------------------------- interpreter

type machine struct {
	rb   *ring.Buffer
	ref  []byte // direct oracle: the bytes written and not yet consumed
	dead bool
}

func (m *machine) fail(site, sig, detail string) { w.Fail(site, sig, detail) }

func short(b []byte) string {
	if len(b) > 24 {
		return fmt.Sprintf("%x..(%d)", b[:24], len(b))
	}
	return fmt.Sprintf("%x", b)
}

// state observables + accounting oracle
func (m *machine) state(site string) {
	var bs []byte
	var bu, av, cp, ln int
	var ie, ifu bool
	p, msg := tr.Guard(func() {
		bs = m.rb.Bytes()
		bu, av, cp, ln = m.rb.Buffered(), m.rb.Available(), m.rb.Cap(), m.rb.Len()
		ie, ifu = m.rb.IsEmpty(), m.rb.IsFull()
	})
	if p {
		w.Obs(tr.L("st", "panic"))
		m.fail(site, "state-panic", msg)
		m.dead = true
		return
	}
	bx := "-" // Bytes() is printed only while Buffered() is small; the oracle below checks it always
	if bu <= 768 {
		bx = tr.X(bs)
	}
	w.Obs(tr.L("st", tr.I(bu), tr.I(av), tr.I(cp), tr.I(ln), tr.B(ie), tr.B(ifu), bx))
	if !bytes.Equal(bs, m.ref) {
		m.fail(site, "content", fmt.Sprintf("Bytes()=%s want %s", short(bs), short(m.ref)))
	}
	if bu != len(m.ref) || bu+av != cp || ie != (bu == 0) || ifu != (bu == cp && cp > 0) || ln != cp {
		m.fail(site, "accounting", fmt.Sprintf("buffered=%d available=%d cap=%d len=%d empty=%v full=%v want buffered=%d",
			bu, av, cp, ln, ie, ifu, len(m.ref)))
	}
	if ifu {
		w.Tag("full")
	}
	if h, t := m.rb.Peek(-1); len(h) > 0 && len(t) > 0 {
		w.Tag("wrapped")
	}
}

func (m *machine) exec(op tr.Line) {
	if m.dead {
		return
	}
	w.Op(op)
	name := op.Name
	if name == "new" {
		n := op.Int(0)
		p, msg := tr.Guard(func() { m.rb = ring.New(n) })
		m.ref = nil
		if p {
			w.Obs(tr.L("new", "panic"))
			m.fail("New", "panic", msg)
			m.dead = true
			return
		}
		w.Obs(tr.L("new", "ok"))
		m.state("New")
		return
	}
	if m.rb == nil {
		m.rb = ring.New(0)
	}
	capBefore := m.rb.Cap()
	var site string
	var after func() // oracle on the results, run when no panic happened
	p, msg := tr.Guard(func() {
		switch name {
		case "write", "writestring":
			data := op.Bytes(0)
			var n int
			var err error
			if name == "write" {
				site = "Write"
				n, err = m.rb.Write(data)
			} else {
				site = "WriteString"
				n, err = m.rb.WriteString(string(data))
			}
			w.Obs(tr.L("write", tr.I(n), errSym(err)))
			m.ref = append(m.ref, data...)
			if n != len(data) || err != nil {
				m.fail(site, "result", fmt.Sprintf("n=%d err=%v len=%d", n, err, len(data)))
			}
		case "writebyte":
			site = "WriteByte"
			c := byte(op.Int(0))
			err := m.rb.WriteByte(c)
			w.Obs(tr.L("writebyte", errSym(err)))
			m.ref = append(m.ref, c)
			if err != nil {
				m.fail(site, "result", fmt.Sprint(err))
			}
		case "read":
			site = "Read"
			n := op.Int(0)
			pbuf := make([]byte, n)
			k, err := m.rb.Read(pbuf)
			if k < 0 || k > n {
				w.Obs(tr.L("read", tr.I(k), errSym(err), "x"))
				m.fail(site, "result", fmt.Sprintf("count %d out of range", k))
				return
			}
			w.Obs(tr.L("read", tr.I(k), errSym(err), tr.X(pbuf[:k])))
			want := n
			if want > len(m.ref) {
				want = len(m.ref)
			}
			wantErr := "nil"
			if n > 0 && len(m.ref) == 0 {
				wantErr = "empty"
			}
			if k != want || !bytes.Equal(pbuf[:k], m.ref[:want]) || errSym(err) != wantErr {
				m.fail(site, "result", fmt.Sprintf("n=%d err=%v data=%s want n=%d err=%s data=%s", k, err, short(pbuf[:k]), want, wantErr, short(m.ref[:want])))
			}
			m.ref = m.ref[want:]
		case "readbyte":
			site = "ReadByte"
			b, err := m.rb.ReadByte()
			w.Obs(tr.L("readbyte", tr.I(int(b)), errSym(err)))
			if len(m.ref) == 0 {
				if err != ring.ErrIsEmpty {
					m.fail(site, "result", fmt.Sprintf("err=%v on empty buffer", err))
				}
			} else {
				if err != nil || b != m.ref[0] {
					m.fail(site, "result", fmt.Sprintf("b=%d err=%v want %d", b, err, m.ref[0]))
				}
				m.ref = m.ref[1:]
			}
		case "peek":
			site = "Peek"
			n := op.Int(0)
			h, t := m.rb.Peek(n)
			w.Obs(tr.L("peek", tr.I(len(h)), tr.I(len(t)), tr.X(h), tr.X(t)))
			want := len(m.ref)
			if n > 0 && n < want {
				want = n
			}
			got := append(append([]byte{}, h...), t...)
			if !bytes.Equal(got, m.ref[:want]) {
				m.fail(site, "result", fmt.Sprintf("n=%d got %s want %s", n, short(got), short(m.ref[:want])))
			}
			if len(t) > 0 {
				w.Tag("peek-two-segments")
			}
		case "discard":
			site = "Discard"
			n := op.Int(0)
			d, err := m.rb.Discard(n)
			w.Obs(tr.L("discard", tr.I(d), errSym(err)))
			want := n
			if want < 0 {
				want = 0
			}
			if want > len(m.ref) {
				want = len(m.ref)
			}
			if d != want || err != nil {
				m.fail(site, "result", fmt.Sprintf("n=%d discarded=%d err=%v want %d", n, d, err, want))
			}
			m.ref = m.ref[want:]
		case "bytes":
			site = "Bytes"
			b := m.rb.Bytes()
			w.Obs(tr.L("bytes", tr.X(b)))
			if !bytes.Equal(b, m.ref) {
				m.fail(site, "result", fmt.Sprintf("got %s want %s", short(b), short(m.ref)))
			}
		case "reset":
			site = "Reset"
			m.rb.Reset()
			w.Obs(tr.L("reset", "ok"))
			m.ref = nil
		case "readfrom":
			site = "ReadFrom"
			src := op.Bytes(0)
			rd := &sreader{src: src, script: parseScript(op.Args[1:])}
			nscript := len(rd.script)
			wantErr := "nil"
			for _, rp := range rd.script {
				if rp.e == "eof" {
					break
				}
				if rp.e != "nil" {
					wantErr = "err"
					break
				}
			}
			// keep the oracle's view in step with what the reader really delivered,
			// whatever ReadFrom does with it afterwards
			after = func() {
				delivered := len(src) - len(rd.src)
				m.ref = append(m.ref, src[:delivered]...)
			}
			n, err := m.rb.ReadFrom(rd)
			line := []string{tr.I64(n), errSym(err), tr.I(len(rd.src))}
			for _, o := range rd.offered {
				line = append(line, tr.I(o))
			}
			w.Obs(tr.L("readfrom", line...))
			delivered := len(src) - len(rd.src)
			if int(n) != delivered || errSym(err) != wantErr {
				m.fail(site, "result", fmt.Sprintf("n=%d err=%v delivered=%d wanterr=%s", n, err, delivered, wantErr))
			}
			if len(rd.offered) > 1 || nscript > 0 && delivered < len(src) {
				w.Tag("reader-short-or-multi")
			}
			if wantErr == "err" {
				w.Tag("reader-error")
			}
		case "writeto":
			site = "WriteTo"
			wr := &swriter{script: parseScript(op.Args)}
			wasLen := len(m.ref)
			after = func() {
				k := len(wr.recv)
				if k > len(m.ref) {
					k = len(m.ref)
				}
				m.ref = m.ref[k:]
			}
			n, err := m.rb.WriteTo(wr)
			w.Obs(tr.L("writeto", tr.I64(n), errSym(err), tr.X(wr.recv)))
			bad := int(n) != len(wr.recv) || len(wr.recv) > wasLen || !bytes.Equal(wr.recv, m.ref[:min(len(wr.recv), wasLen)])
			if wasLen == 0 && err != ring.ErrIsEmpty {
				bad = true
			}
			if wasLen > 0 && (err == ring.ErrIsEmpty || err == nil && len(wr.recv) != wasLen) {
				bad = true
			}
			if bad {
				m.fail(site, "result", fmt.Sprintf("n=%d err=%v received=%s buffered-before=%d", n, err, short(wr.recv), wasLen))
			}
			if len(wr.recv) < wasLen {
				w.Tag("writer-short-or-error")
			}
		default:
			site = "unknown"
			w.Obs(tr.L("unknown"))
		}
	})
	if after != nil {
		after()
	}
	if p {
		if name == "writestring" {
			name = "write"
		}
		w.Obs(tr.L(name, "panic"))
		m.fail(site, "panic", msg)
		m.dead = true
		return
	}
	m.state(site)
	if !m.dead && m.rb.Cap() != capBefore {
		w.Tag("grow")
	}
}

func min(a, b int) int {
	if a < b {
		return a
	}
	return b
}

// ---------------------------------------------------------------- generator

var initSizes = []int{0, 1, 2, 3, 64, 1000, 1024, 4096, 8192}

const maxArg = 10000

func clampArg(n int) int {
	if n < 0 {
		return 0
	}
	if n > maxArg {
		return maxArg
	}
	return n
}

// argument sizes: the boundary classes of DESIGN.md section 4 / C09.
// grow=false keeps most write sizes within Available() so that sequences wrap
// around instead of growing (growth re-linearises the buffer).
func pickSize(rnd *tr.Rand, rb *ring.Buffer, write bool) (int, string) {
	av, cp, bu := rb.Available(), rb.Cap(), rb.Buffered()
	if write && rnd.Chance(70) {
		switch rnd.Intn(8) {
		case 0:
			return 1, "1"
		case 1:
			return clampArg(av - 1), "avail-1"
		case 2, 3:
			return clampArg(av), "avail"
		case 4, 5:
			return rnd.Intn(av + 1), "random<=avail"
		case 6:
			return rnd.Intn(av/4 + 2), "random<=avail/4"
		default:
			return rnd.Intn(40), "random<40"
		}
	}
	if h, t := rb.Peek(-1); !write && len(t) > 0 && rnd.Chance(30) {
		// wrapped: sizes around the end of the backing array (two-segment paths)
		switch rnd.Intn(5) {
		case 0:
			return clampArg(len(h) - 1), "head-1"
		case 1:
			return len(h), "head"
		case 2:
			return len(h) + 1, "head+1"
		default:
			return len(h) + rnd.Intn(len(t)+1), "head+random<=tail"
		}
	}
	if !write && rnd.Chance(50) {
		switch rnd.Intn(8) {
		case 0:
			return 1, "1"
		case 1:
			return clampArg(bu - 1), "buffered-1"
		case 2:
			return clampArg(bu), "buffered"
		case 3:
			return clampArg(bu + 1), "buffered+1"
		case 4, 5:
			return rnd.Intn(bu + 1), "random<=buffered"
		case 6:
			return rnd.Intn(bu/4 + 2), "random<=buffered/4"
		default:
			return rnd.Intn(40), "random<40"
		}
	}
	c := rnd.Intn(13)
	if write && cp >= 16384 { // bound the cost of a case: no further doubling
		c = rnd.Intn(3)
	}
	switch c {
	case 0:
		return 0, "0"
	case 1:
		return clampArg(av + 1), "avail+1"
	case 2:
		return clampArg(av - 1), "avail-1"
	case 3:
		return clampArg(cp - 1), "cap-1"
	case 4:
		return clampArg(cp), "cap"
	case 5:
		return clampArg(cp + 1), "cap+1"
	case 6:
		return 511 + rnd.Intn(3), "511..513"
	case 7:
		if cp >= 2048 || rnd.Chance(25) {
			return 4095 + rnd.Intn(3), "4095..4097"
		}
		return 511 + rnd.Intn(3), "511..513"
	case 8:
		return rnd.Intn(2*cp + 17), "random<2cap"
	case 9:
		if cp >= 2048 || rnd.Chance(25) {
			return rnd.Intn(6000), "random<6000"
		}
		return rnd.Intn(600), "random<600"
	case 10:
		return clampArg(av), "avail"
	default:
		return rnd.Intn(40), "random<40"
	}
}

func genReadScript(rnd *tr.Rand, rb *ring.Buffer) []string {
	var out []string
	n := rnd.Intn(7)
	for i := 0; i < n; i++ {
		c := rnd.Intn(100)
		switch {
		case c < 45: // as much as offered
			out = append(out, "100000", "nil")
		case c < 75: // short
			k, _ := pickSize(rnd, rb, false)
			out = append(out, tr.I(k), "nil")
			w.Hist("rscript-short")
		case c < 85: // data together with EOF
			k, _ := pickSize(rnd, rb, false)
			out = append(out, tr.I(k), "eof")
			w.Hist("rscript-data+eof")
		case c < 95: // error after partial transfer
			k, _ := pickSize(rnd, rb, false)
			out = append(out, tr.I(k), "err")
			w.Hist("rscript-partial+err")
		default:
			out = append(out, "0", "nil")
			w.Hist("rscript-0-nil")
		}
	}
	return out
}

func genWriteScript(rnd *tr.Rand, rb *ring.Buffer) []string {
	var out []string
	n := rnd.Intn(4)
	for i := 0; i < n; i++ {
		c := rnd.Intn(100)
		k, _ := pickSize(rnd, rb, false)
		switch {
		case c < 35:
			out = append(out, "100000", "nil")
		case c < 60:
			out = append(out, tr.I(k), "nil")
			w.Hist("wscript-short-nil")
		case c < 80:
			out = append(out, tr.I(k), "err")
			w.Hist("wscript-partial+err")
		case c < 90:
			out = append(out, "0", "err")
			w.Hist("wscript-0-err")
		case c < 95:
			out = append(out, "0", "nil")
			w.Hist("wscript-0-nil")
		default:
			out = append(out, "100000", "err")
			w.Hist("wscript-all+err")
		}
	}
	return out
}

func genCase(rnd *tr.Rand, id int) {
	m := &machine{}
	w.Case(fmt.Sprintf("r%d", id), "ring")
	size := initSizes[rnd.Intn(len(initSizes))]
	if rnd.Chance(10) {
		size = rnd.Intn(10000)
	}
	w.Hist(fmt.Sprintf("init-size-%d", size/1024*1024))
	m.exec(tr.L("new", tr.I(size)))
	nops := rnd.Range(1, 60)
	if size >= 4096 { // large buffers cost the extracted model milliseconds per op
		nops = rnd.Range(1, 30)
	}
	// a per-case bias makes some sequences write-heavy (growth) and some balanced (wrap-around)
	wbias := rnd.Range(20, 60)
	for i := 0; i < nops && !m.dead; i++ {
		var op tr.Line
		c := rnd.Intn(100)
		if c < wbias {
			switch rnd.Intn(10) {
			case 0, 1, 2, 3:
				n, cl := pickSize(rnd, m.rb, true)
				w.Hist("write-" + cl)
				op = tr.L("write", tr.X(rnd.Bytes(n)))
			case 4, 5:
				n, cl := pickSize(rnd, m.rb, true)
				w.Hist("writestring-" + cl)
				op = tr.L("writestring", tr.X(rnd.Bytes(n)))
			case 6, 7:
				w.Hist("writebyte")
				op = tr.L("writebyte", tr.I(rnd.Intn(256)))
			default:
				n, cl := pickSize(rnd, m.rb, true)
				w.Hist("readfrom-" + cl)
				args := append([]string{tr.X(rnd.Bytes(n))}, genReadScript(rnd, m.rb)...)
				op = tr.L("readfrom", args...)
			}
		} else {
			switch rnd.Intn(14) {
			case 0, 1, 2, 3:
				n, cl := pickSize(rnd, m.rb, false)
				w.Hist("read-" + cl)
				op = tr.L("read", tr.I(n))
			case 4, 5:
				w.Hist("readbyte")
				op = tr.L("readbyte")
			case 6, 7:
				n, cl := pickSize(rnd, m.rb, false)
				if rnd.Chance(10) {
					n, cl = -1-rnd.Intn(3), "negative"
				}
				w.Hist("peek-" + cl)
				op = tr.L("peek", tr.I(n))
			case 8, 9:
				n, cl := pickSize(rnd, m.rb, false)
				if rnd.Chance(10) {
					n, cl = -1-rnd.Intn(3), "negative"
				}
				w.Hist("discard-" + cl)
				op = tr.L("discard", tr.I(n))
			case 10, 11:
				w.Hist("writeto")
				op = tr.L("writeto", genWriteScript(rnd, m.rb)...)
			case 12:
				w.Hist("bytes")
				op = tr.L("bytes")
			default:
				if rnd.Chance(30) {
					w.Hist("reset")
					op = tr.L("reset")
				} else {
					w.Hist("read-all")
					op = tr.L("read", tr.I(m.rb.Buffered()))
				}
			}
		}
		m.exec(op)
	}
	w.End()
}

func replay(path string) {
	for _, c := range tr.ReadCases(path) {
		m := &machine{}
		w.Case(c.ID, "ring")
		w.Tag("replay")
		for _, op := range c.Ops {
			m.exec(op)
		}
		w.End()
	}
}

func main() {
	seed := flag.Uint64("seed", 1, "")
	tier := flag.String("tier", "quick", "")
	out := flag.String("out", "trace.txt", "")
	stats := flag.String("stats", "", "")
	rep := flag.String("replay", "", "")
	flag.Parse()
	w = tr.NewWriter(*out)
	defer w.Close(*stats)
	if *rep != "" {
		replay(*rep)
		return
	}
	rnd := tr.NewRand(*seed)
	cnt := 600
	if *tier == "thorough" {
		cnt = 30000
	}
	for i := 1; i <= cnt; i++ {
		genCase(rnd, i)
	}
}
