(* The procedures outside the mutual block (el_read ... polling) preserve the C04/C07
   invariant; the history of every run satisfies the product checker. *)
From GV Require Import Lib.Trace Model.Loop Spec.LoopSpec
  Proofs.LoopInv Proofs.LoopAState Proofs.LoopATrans Proofs.LoopAPrims Proofs.LoopAUnfold
  Proofs.LoopAMutual.
From Coq Require Import Lia Permutation.
Open Scope string_scope.
Open Scope list_scope.
Open Scope Z_scope.

Lemma wc_wsetc : forall w cid c', wc (wsetc w cid c') cid = c'.
Proof. intros. unfold wc, wsetc. cbn [st with_st]. rewrite getc_setc, Z.eqb_refl. reflexivity. Qed.

(* at top level an open connection is registered and in phase POpen *)
Lemma top_open_phase : forall P N m s cid,
  Rst [] P N m s -> c_opened (getc s cid) = true -> ph m cid = POpen.
Proof.
  intros P N m s cid HR Ho. destruct (r_open _ _ _ _ _ HR _ Ho) as [[[] _]|[_ [_ Hp]]]. exact Hp.
Qed.

Section Top.
Variable c0 : pst.
Notation Iv := (Inv pstep c0).
Notation Top := (Rel [] [] []).

Lemma I_drop_N : forall L P N k w, Iv (Rel L P (k :: N)) w -> Iv (Rel L P N) w.
Proof. intros. eapply Inv_weaken; [exact H|]. intros c _ Hc. eapply RelQ_drop_N; eauto. Qed.

Lemma I_cb_traffic : forall P N cid w,
  Iv (RelX [] P N (Opened cid)) w ->
  Iv (RelX [] P N (Opened cid)) (emit (obs "cb" [ASym "traffic"; AInt cid]) w).
Proof.
  intros P N cid w H. eapply Inv_emit; [exact H|reflexivity|].
  intros [m cs] _ [[HR HF] [Hlt Ho]]. exists (m, cs). split.
  - apply pstep_cb_traffic. eapply top_open_phase; eauto.
  - split; [split; auto|split; auto].
Qed.

Lemma I_sys_read_open : forall L P N cid fd rest w k w1,
  Iv (RelX L P N (OpFd cid fd)) w -> sys "read" (AInt fd :: rest) w = (k, w1) ->
  Iv (RelX L P N (OpFd cid fd)) w1.
Proof.
  intros L P N cid fd rest w k w1 H Hs.
  eapply (I_sys_plain c0 L P N (OpFd cid fd) "read" fd);
    [apply Stable_At|reflexivity|reflexivity|exact H| |exact Hs].
  intros m cs _ [[HR HF] [_ [Ho Hf]]]. apply FdR_sys; [unfold sysname; cbn; tauto|exact HF|].
  intros HL. rewrite <- Hf. eapply owns_opened; eauto. split; eauto.
Qed.

Definition Fread (cid recv : Z) : phmap -> lstate -> Prop :=
  fun m s => recv = 0 \/ Opened cid m s.

Lemma Stable_Fread : forall cid recv, Stable (Fread cid recv).
Proof.
  intros cid recv m s s' Hf [H|H]; [left; exact H|right]. eapply Stable_At; eauto.
Qed.

Lemma I_el_read : forall f cid recv w P N,
  Iv (RelX [] P N (Fread cid recv)) w -> Iv (Rel [] P N) (snd (el_read f cid recv w)).
Proof.
  induction f as [|f IH]; intros cid recv w P N H; cbn [el_read].
  { cbn [snd]. eapply Inv_desync; eauto. }
  assert (H0 : Iv (Rel [] P N) w) by (eapply Iv_X_Rel; exact H).
  destruct (negb (c_opened (wc w cid)) && (recv =? 0)) eqn:Hb; [exact H0|].
  assert (HO : Iv (RelX [] P N (Opened cid)) w).
  { destruct (c_opened (wc w cid)) eqn:Ho; [apply I_assert_opened; auto|].
    cbn [negb andb] in Hb. eapply Inv_weaken; [exact H|].
    intros c _ [HR [Hx|Hx]]; [lia|split; auto]. }
  apply I_opened_fd in HO. set (fd := c_fd (wc w cid)) in *.
  destruct (sys "read" [AInt fd; AInt (l_bufcap (st w))] w) as [k w1] eqn:Hs.
  assert (H1 := I_sys_read_open [] P N cid fd _ w k w1 HO Hs).
  assert (H1r : Iv (Rel [] P N) w1) by (eapply Iv_X_Rel; exact H1).
  destruct k as [n extra|e|]; [|destruct (is_eagain e); [exact H1r|]|exact H1r].
  2:{ apply I_el_close. apply I_ghost; [cbn; tauto|exact H1r]. }
  destruct (n =? 0); [apply I_el_close; apply I_ghost; [cbn; tauto|exact H1r]|].
  match goal with |- context [if ?b then (RErr, desync "kernel-contract-read" w1) else _] =>
    destruct b end; [eapply Inv_desync; exact H1r|].
  set (data := match extra with ABytes b :: _ => b | _ => [] end).
  set (w2 := wsetc (ghost "del" cid data w1) cid (c_set_buf (wc w1 cid) data)).
  assert (H2 : Iv (RelX [] P N (Opened cid)) w2).
  { unfold w2. apply I_wsetc_X; try (rewrite wc_ghost; reflexivity).
    - intros m [Hlt Ho]. rewrite st_ghost in *. apply At_setc; [exact Ho|split; auto].
    - apply I_ghost; [cbn; tauto|]. eapply I_fd_opened; exact H1. }
  set (w3 := emit (obs "cb" [ASym "traffic"; AInt cid]) w2).
  assert (H3 : Iv (Rel [] P N) w3) by (eapply Iv_X_Rel; apply I_cb_traffic; exact H2).
  destruct (handler (S f) cid w3) as [[act rep] w4] eqn:Hh.
  assert (H4 : Iv (Rel [] P N) w4).
  { assert (Hx := I_handler c0 (S f) cid w3 [] P N H3). rewrite Hh in Hx. exact Hx. }
  destruct act; [|apply I_el_close; exact H4|exact H4].
  destruct (c_opened (wc w4 cid)) eqn:Ho4; cbn [negb]; [|exact H4].
  set (w5 := wsetc w4 cid (c_set_buf (c_set_in (wc w4 cid) (c_in (wc w4 cid) ++ c_buf (wc w4 cid))) [])).
  assert (H5 : Iv (Rel [] P N) w5) by (apply I_wsetc; auto).
  assert (Ho5 : c_opened (wc w5 cid) = true) by (unfold w5; rewrite wc_wsetc; exact Ho4).
  match goal with |- context [if ?b then el_read f cid (recv + n) w5 else _] => destruct b end.
  - apply IH. eapply Inv_weaken; [apply (I_assert_opened c0 [] P N w5 cid H5 Ho5)|].
    intros c _ [HR HF]. split; [exact HR|right; exact HF].
  - match goal with |- context [if ?b then trigger true (TRead0 cid) _ else _] => destruct b end;
      [|exact H5].
    apply I_trigger_rel; [reflexivity|]. apply I_ghost; [cbn; tauto|exact H5].
Qed.


Lemma I_sendto_X : forall L P N F w cid d fl k w1,
  Stable F -> Iv (RelX L P N F) w -> c_udp (wc w cid) = true ->
  c_remote (wc w cid) = true \/ c_opened (wc w cid) = true ->
  sys "sendto" [AInt (c_fd (wc w cid)); ABytes d; fl] w = (k, w1) -> Iv (RelX L P N F) w1.
Proof.
  intros L P N F w cid d fl k w1 HS H Hudp Hor Hs.
  eapply (I_sys_plain c0 L P N F "sendto" (c_fd (wc w cid)));
    [exact HS|reflexivity|reflexivity|exact H| |exact Hs].
  intros m cs _ [[HR HF] _]. apply FdR_sendto; [exact HF|]. intros HL.
  destruct Hor as [Hr|Ho].
  - eapply Led_owns_listener; [exact HL|]. apply (r_udp _ _ _ _ _ HR); auto.
  - eapply Led_owns_holder; [exact HL|]. left. exact Ho.
Qed.

Lemma I_open_loop : forall cid k data w L P N,
  Iv (RelX L P N (Opened cid)) w -> Iv (RelX L P N (Opened cid)) (snd (open_loop cid k data w)).
Proof.
  intros cid. induction k as [|k IH]; intros data w L P N H; cbn [open_loop].
  { cbn [snd]. eapply Inv_desync; eauto. }
  apply I_opened_fd in H. set (fd := c_fd (wc w cid)) in *.
  destruct data as [|b0 data].
  - destruct (sys_wr cid fd [] true w) as [k0 w'] eqn:Hs.
    assert (H1 := I_fd_opened c0 _ _ _ _ _ _ (I_sys_wr_open c0 L P N cid fd _ true w k0 w' H Hs)).
    destruct k0 as [n ex|e|]; cbn [snd]; auto. destruct (is_eagain e); exact H1.
  - destruct (sys_wr cid fd (b0 :: data) true w) as [k0 w'] eqn:Hs.
    assert (H1x := I_sys_wr_open c0 L P N cid fd _ true w k0 w' H Hs).
    assert (H1 := I_fd_opened c0 _ _ _ _ _ _ H1x).
    destruct k0 as [n ex|e|]; cbn [snd]; auto.
    + destruct (zdrop n (b0 :: data)) as [|r0 rest]; [exact H1|]. apply IH. exact H1.
    + destruct (is_eagain e); cbn [snd]; [|exact H1].
      eapply I_fd_opened. apply I_wsetc_out_open. exact H1x.
Qed.

Lemma I_open_reply : forall cid reply w3 P N,
  c_opened (wc w3 cid) = true -> Iv (RelX [] P N (Opened cid)) w3 ->
  Iv (RelX [] P N (Opened cid)) (snd (open_reply cid reply w3)).
Proof.
  intros cid reply w3 P N Ho3 H. unfold open_reply. destruct reply as [data|]; [|exact H].
  cbv zeta.
  destruct (c_udp (wc w3 cid)) eqn:Hudp; cbn [andb].
  - destruct (negb (c_remote (wc w3 cid))).
    + destruct (sys "sendto" _ w3) as [k w'] eqn:Hs.
      assert (H1 : Iv (RelX [] P N (Opened cid)) w').
      { eapply I_sendto_X; [apply Stable_At|exact H|exact Hudp| |exact Hs]. right. exact Ho3. }
      destruct k; exact H1.
    + destruct (c_out (wc w3 cid)) as [|o0 out].
      * apply I_open_loop. exact H.
      * cbn [snd]. apply I_wsetc_X; auto. intros m [Hlt Ho]. apply At_setc; [exact Ho|split; auto].
  - set (w3' := ghost "sub" cid data w3).
    assert (H' : Iv (RelX [] P N (Opened cid)) w3').
    { apply I_ghost; [cbn; tauto|]. exact H. }
    destruct (c_out (wc w3 cid)) as [|o0 out] eqn:Hout.
    + apply I_open_loop. exact H'.
    + cbn [snd]. apply I_wsetc_X; try (unfold w3'; rewrite !wc_ghost; reflexivity); [|exact H'].
      intros m [Hlt Ho]. unfold w3' in *. rewrite !st_ghost in *.
      apply At_setc; [exact Ho|split; auto].
Qed.


Lemma I_open_tail : forall fuel cid act ok w4 P N,
  Iv (RelX [] P N (Opened cid)) w4 -> Iv (Rel [] P N) (snd (open_tail fuel cid act ok w4)).
Proof.
  intros fuel cid act ok w4 P N H. unfold open_tail. cbv zeta.
  assert (Hr : Iv (Rel [] P N) w4) by (eapply Iv_X_Rel; exact H).
  destruct ok; cbn [negb]; [|apply I_el_close; exact Hr].
  assert (Htail : forall r5 w5, Iv (Rel [] P N) w5 ->
     Iv (Rel [] P N) (snd (match r5 with
       | RNil => match act with ANone => (RNil, w5) | AClose => el_close fuel cid true w5
                 | AShutdown => (RShutdown, w5) end
       | _ => el_close fuel cid false w5 end))).
  { intros r5 w5 H5. destruct r5; try (apply I_el_close; exact H5).
    destruct act; try exact H5. apply I_el_close; exact H5. }
  destruct (c_out (wc w4 cid)) as [|o0 out]; [exact (Htail RNil w4 Hr)|].
  destruct (l_et (st w4)); [exact (Htail RNil w4 Hr)|].
  destruct (epctl "mod" (c_fd (wc w4 cid)) true false w4) as [r5 w5] eqn:He.
  apply (Htail r5 w5). eapply Iv_X_Rel.
  eapply (I_epctl_open c0 [] P N cid (c_fd (wc w4 cid)) "mod"); [cbn; tauto| |exact He].
  apply I_opened_fd. exact H.
Qed.

Definition Freg (cid fd0 : Z) (c : conn) :=
  At cid (fun c' reg => c' = c /\ alookup fd0 reg = None).

Lemma I_el_open : forall fuel cid fd0 c w1 P N,
  c_fd c = fd0 ->
  Iv (RelX [] (cid :: P) N (Freg cid fd0 c)) w1 ->
  Iv (Rel [] P N)
     (snd (el_open fuel cid (with_st w1 (set_reg (st w1) (aset fd0 cid (l_reg (st w1))))))).
Proof.
  intros fuel cid fd0 c w1 P N Hfd H. rewrite el_open_parts. cbv zeta.
  set (s2 := setc (set_reg (st w1) (aset fd0 cid (l_reg (st w1)))) cid
                  (c_set_opened (getc (st w1) cid) true)).
  set (w2 := emit (obs "cb" [ASym "open"; AInt cid]) (with_st w1 s2)).
  change (emit (obs "cb" [ASym "open"; AInt cid])
            (wsetc (with_st w1 (set_reg (st w1) (aset fd0 cid (l_reg (st w1))))) cid
               (c_set_opened (wc (with_st w1 (set_reg (st w1) (aset fd0 cid (l_reg (st w1))))) cid) true)))
    with w2.
  assert (H2 : Iv (Rel [] P N) w2).
  { unfold w2. eapply Inv_st_emit; [exact H|reflexivity|].
    intros [m cs] _ [HR [Hlt [Hc Hn]]].
    destruct (RelQ_open P N m cs (st w1) cid fd0 HR) as [Hph HR'].
    - rewrite Hc. exact Hfd.
    - exact Hn.
    - exists (aset cid POpen m, cs). split; [apply pstep_cb_open; exact Hph|exact HR']. }
  destruct (handler fuel cid w2) as [[act reply] w3] eqn:Hh.
  assert (H3 : Iv (Rel [] P N) w3).
  { assert (Hx := I_handler c0 fuel cid w2 [] P N H2). rewrite Hh in Hx. exact Hx. }
  destruct (c_opened (wc w3 cid)) eqn:Ho3; cbn [negb]; [|destruct act; exact H3].
  destruct (open_reply cid reply w3) as [ok w4] eqn:Hr.
  apply I_open_tail.
  assert (Hx := I_open_reply cid reply w3 P N Ho3 (I_assert_opened c0 [] P N w3 cid H3 Ho3)).
  rewrite Hr in Hx. exact Hx.
Qed.

Lemma never_unopened : forall P N m s cid, Rst [] P N m s -> In cid N -> c_opened (getc s cid) = false.
Proof.
  intros P N m s cid HR Hi. destruct (c_opened (getc s cid)) eqn:Ho; [|reflexivity].
  destruct (r_never _ _ _ _ _ HR _ Hi) as [Hx _].
  rewrite (top_open_phase _ _ _ _ _ HR Ho) in Hx. discriminate.
Qed.

Lemma I_el_register0 : forall fuel cid w,
  Iv (Rel [] [cid] []) w -> Iv Top (snd (el_register0 fuel cid w)).
Proof.
  intros fuel cid w H. unfold el_register0. cbv zeta.
  unfold fd_in_use. destruct (alookup (c_fd (wc w cid)) (l_reg (st w))) as [x|] eqn:Hreg;
    [eapply Inv_desync; exact H|].
  set (c := wc w cid) in *. set (fd0 := c_fd c) in *.
  assert (HX : Iv (RelX [] [cid] [] (Freg cid fd0 c)) w).
  { apply I_assert_At; [exact H| |split; [reflexivity|exact Hreg]].
    intros _. right; right. left. reflexivity. }
  destruct (epctl "add" fd0 (l_et (st w)) (l_et (st w)) w) as [r w1] eqn:He.
  assert (H1 : Iv (RelX [] [cid] [] (Freg cid fd0 c)) w1).
  { eapply (I_epctl c0 [] [cid] [] _ "add"); [apply Stable_At|cbn; tauto|exact HX| |exact He].
    intros m cs _ [HR [_ [Hc _]]] _ HL. unfold fd0. rewrite <- Hc.
    eapply Led_owns_holder; [exact HL|]. right; right. left. reflexivity. }
  destruct r.
  - destruct (c_udp c && c_remote c) eqn:Hur.
    + cbn [snd]. eapply Inv_with_st; [exact H1|]. intros [m cs] _ [[HR HF] [_ [Hc _]]]. exfalso.
      destruct (r_prom _ _ _ _ _ HR cid (or_introl eq_refl)) as [_ [_ Hx]].
      rewrite Hc, Hur in Hx. discriminate.
    + apply (I_el_open fuel cid fd0 c w1 [] []); [reflexivity|exact H1].
  - destruct (sys "close" [AInt fd0] w1) as [k w2] eqn:Hs. cbn [snd].
    assert (H2 : Iv (Rel [] [] [cid]) w2).
    { eapply (I_sys_close_P c0 [] [] [] _ cid fd0); [apply Stable_At| |exact H1|exact Hs].
      intros m s [_ [Hc _]]. rewrite Hc. reflexivity. }
    apply (I_drop_N [] [] [] cid). eapply Inv_wsetc; [exact H2|].
    intros c1 _ HR. apply RelQ_release; [|exact HR]. left.
    eapply never_unopened; [exact (proj1 HR)|left; reflexivity].
  - destruct (sys "close" [AInt fd0] w1) as [k w2] eqn:Hs. cbn [snd].
    assert (H2 : Iv (Rel [] [] [cid]) w2).
    { eapply (I_sys_close_P c0 [] [] [] _ cid fd0); [apply Stable_At| |exact H1|exact Hs].
      intros m s [_ [Hc _]]. rewrite Hc. reflexivity. }
    apply (I_drop_N [] [] [] cid). eapply Inv_wsetc; [exact H2|].
    intros c1 _ HR. apply RelQ_release; [|exact HR]. left.
    eapply never_unopened; [exact (proj1 HR)|left; reflexivity].
  - destruct (sys "close" [AInt fd0] w1) as [k w2] eqn:Hs. cbn [snd].
    assert (H2 : Iv (Rel [] [] [cid]) w2).
    { eapply (I_sys_close_P c0 [] [] [] _ cid fd0); [apply Stable_At| |exact H1|exact Hs].
      intros m s [_ [Hc _]]. rewrite Hc. reflexivity. }
    apply (I_drop_N [] [] [] cid). eapply Inv_wsetc; [exact H2|].
    intros c1 _ HR. apply RelQ_release; [|exact HR]. left.
    eapply never_unopened; [exact (proj1 HR)|left; reflexivity].
Qed.

Lemma I_el_wake : forall fuel cid w, Iv Top w -> Iv Top (snd (el_wake fuel cid w)).
Proof.
  intros fuel cid w H. unfold el_wake. cbv zeta.
  destruct (c_opened (wc w cid)) eqn:Ho; cbn [negb orb]; [|exact H].
  destruct (alookup (c_fd (wc w cid)) (l_reg (st w))); [|exact H].
  set (w1 := emit (obs "cb" [ASym "traffic"; AInt cid]) w).
  assert (H1 : Iv Top w1).
  { eapply Iv_X_Rel. apply I_cb_traffic. apply I_assert_opened; auto. }
  destruct (handler fuel cid w1) as [[act rep] w2] eqn:Hh.
  assert (H2 : Iv Top w2).
  { assert (Hx := I_handler c0 fuel cid w1 [] [] [] H1). rewrite Hh in Hx. exact Hx. }
  destruct act; try exact H2. apply I_el_close; exact H2.
Qed.

Lemma I_el_read0 : forall f cid w, Iv Top w -> Iv Top (snd (el_read f cid 0 w)).
Proof.
  intros. apply I_el_read. eapply Inv_weaken; [exact H|]. intros c _ Hc. split; [exact Hc|left; reflexivity].
Qed.

Lemma I_process_io : forall fuel cid ev w, Iv Top w -> Iv Top (snd (process_io fuel cid ev w)).
Proof.
  intros fuel cid ev w H. unfold process_io. cbv zeta.
  destruct (has ev (EV_ERR + EV_HUP + EV_RDHUP) && negb (has ev (EV_IN + EV_PRI + EV_OUT))).
  { apply I_el_close. apply I_wsetc; auto. }
  destruct (if has ev (EV_OUT + EV_ERR + EV_HUP) then el_write fuel cid 0 w else (RNil, w)) as [r1 w1] eqn:H1e.
  assert (H1 : Iv Top w1).
  { destruct (has ev (EV_OUT + EV_ERR + EV_HUP)); [|inversion H1e; subst; exact H].
    assert (Hx := I_el_write c0 fuel cid 0 w [] [] [] H). rewrite H1e in Hx. exact Hx. }
  destruct r1; try exact H1.
  destruct (if has ev (EV_IN + EV_PRI + EV_ERR + EV_HUP) then el_read fuel cid 0 w1 else (RNil, w1)) as [r2 w2] eqn:H2e.
  assert (H2 : Iv Top w2).
  { destruct (has ev (EV_IN + EV_PRI + EV_ERR + EV_HUP)); [|inversion H2e; subst; exact H1].
    assert (Hx := I_el_read0 fuel cid w1 H1). rewrite H2e in Hx. exact Hx. }
  destruct r2; try exact H2.
  destruct (has ev EV_RDHUP && c_opened (wc w2 cid)); [|exact H2].
  destruct (negb (has ev EV_IN)); [apply I_el_close; exact H2|].
  apply I_el_read0. apply I_wsetc; auto.
Qed.


(* ---- datagrams ---- *)

Definition Flis (b : bool) (fd : Z) : phmap -> lstate -> Prop :=
  fun _ s => b = true -> In fd (map fst (l_listeners s)).

Lemma Stable_Flis : forall b fd, Stable (Flis b fd).
Proof.
  intros b fd m s s' Hf H Hb. unfold frame in Hf.
  destruct Hf as (_ & _ & _ & _ & _ & _ & Hl & _). rewrite Hl. auto.
Qed.

Lemma I_registered_opened : forall w fd cid,
  Iv Top w -> alookup fd (l_reg (st w)) = Some cid -> Iv (RelX [] [] [] (Opened cid)) w.
Proof.
  intros w fd cid H Hr. eapply Inv_weaken; [exact H|]. intros c _ HR. split; [exact HR|].
  destruct (r_reg _ _ _ _ _ (proj1 HR) fd cid Hr) as [H1 H2].
  split; [|exact H2]. eapply holder_lt; [exact (proj1 HR)|left; exact H2].
Qed.

Lemma I_el_read_udp : forall fuel fd is_listener w,
  Iv Top w ->
  (is_listener = true -> In fd (map fst (l_listeners (st w)))) ->
  (is_listener = false -> exists cid, alookup fd (l_reg (st w)) = Some cid) ->
  Iv Top (snd (el_read_udp fuel fd is_listener w)).
Proof.
  intros fuel fd is_listener w H Hl Hr. unfold el_read_udp.
  destruct (sys "recvfrom" [AInt fd; AInt (l_bufcap (st w))] w) as [k w1] eqn:Hs.
  assert (H1 : Iv (RelX [] [] [] (Flis is_listener fd)) w1).
  { eapply (I_sys_plain c0 [] [] [] (Flis is_listener fd) "recvfrom" fd);
      [apply Stable_Flis|reflexivity|reflexivity| | |exact Hs].
    - eapply Inv_weaken; [exact H|]. intros c _ Hc. split; [exact Hc|exact Hl].
    - intros m cs _ [[HR HF] _]. apply FdR_sys; [unfold sysname; cbn; tauto|exact HF|].
      intros HL. destruct is_listener.
      + eapply Led_owns_listener; [exact HL|auto].
      + destruct (Hr eq_refl) as [cid Hc]. destruct (r_reg _ _ _ _ _ HR fd cid Hc) as [Hx Hy].
        rewrite <- Hx. eapply Led_owns_holder; [exact HL|left; exact Hy]. }
  assert (H1r : Iv Top w1) by (eapply Iv_X_Rel; exact H1).
  destruct k as [n extra|e|]; [|destruct (is_eagain e); exact H1r|exact H1r].
  cbv zeta.
  match goal with |- context [if ?b then (RErr, desync "kernel-contract-recvfrom" w1) else _] =>
    destruct b end; [eapply Inv_desync; exact H1r|].
  set (data := match extra with ABytes b :: _ => b | _ => [] end).
  destruct is_listener.
  - set (cid := l_next (st w1)).
    set (c := mkConn fd false false [] [] data true true).
    set (w2 := with_st w1 (set_next (setc (st w1) cid c) (cid + 1))).
    assert (H2 : Iv (Rel [] [] [cid]) w2).
    { unfold w2. eapply Inv_with_st; [exact H1|]. intros [m cs] _ [[HR HF] HFl].
      split; cbn [fst snd].
      - apply (Rst_newconn [] [] [] m (st w1) c false HR eq_refl). intros _ _. apply HFl. reflexivity.
      - destruct HF as [HF|HF]; [left; exact HF|right].
        apply (Led_newconn [] [] [] m None cs (st w1) c false HR HF eq_refl). discriminate. }
    match goal with |- context [handler fuel cid ?w3] => set (w3x := w3) end.
    assert (H3 : Iv (Rel [] [] [cid]) w3x).
    { unfold w3x. apply I_quiet; [apply quiet_cb_udp|reflexivity|exact H2]. }
    destruct (handler fuel cid w3x) as [[act rep] w4] eqn:Hh.
    assert (H4 : Iv (Rel [] [] [cid]) w4).
    { assert (Hx := I_handler c0 fuel cid w3x [] [] [cid] H3). rewrite Hh in Hx. exact Hx. }
    assert (H5 : Iv Top (wsetc w4 cid (c_release (wc w4 cid)))).
    { apply (I_drop_N [] [] [] cid). eapply Inv_wsetc; [exact H4|].
      intros c1 _ HR. apply RelQ_release; [|exact HR]. left.
      eapply never_unopened; [exact (proj1 HR)|left; reflexivity]. }
    destruct act; exact H5.
  - destruct (alookup fd (l_reg (st w1))) as [cid|] eqn:Hreg; [|eapply Inv_desync; exact H1r].
    assert (HO := I_registered_opened w1 fd cid H1r Hreg).
    set (w2 := wsetc (ghost "udpconn" cid [] w1) cid (c_set_buf (wc w1 cid) data)).
    assert (H2 : Iv (RelX [] [] [] (Opened cid)) w2).
    { unfold w2. apply I_wsetc_X; try (rewrite wc_ghost; reflexivity).
      - intros m [Hlt Ho]. rewrite st_ghost in *. apply At_setc; [exact Ho|split; auto].
      - apply I_ghost; [cbn; tauto|exact HO]. }
    set (w3 := emit (obs "cb" [ASym "traffic"; AInt cid]) w2).
    assert (H3 : Iv Top w3) by (eapply Iv_X_Rel; apply I_cb_traffic; exact H2).
    destruct (handler fuel cid w3) as [[act rep] w4] eqn:Hh.
    assert (H4 : Iv Top w4).
    { assert (Hx := I_handler c0 fuel cid w3 [] [] [] H3). rewrite Hh in Hx. exact Hx. }
    destruct act; exact H4.
Qed.

(* ---- accept ---- *)

Definition RelAcc (n : Z) : pst -> lstate -> Prop := fun c s =>
  Rst [] [] [] (fst c) s /\
  (f_dead (snd c) = true \/
   (Led [] [] None (snd c) s /\ zmem n (f_owned (snd c)) = true /\
    forall k, holder [] [] s k -> c_fd (getc s k) <> n)).

Lemma I_sys_accept : forall lfd w k w1,
  Iv Top w -> In lfd (map fst (l_listeners (st w))) ->
  sys "accept" [AInt lfd] w = (k, w1) ->
  match k with KOk n _ => Iv (RelAcc n) w1 | _ => Iv Top w1 end.
Proof.
  intros lfd w k w1 H Hl Hs.
  pose (RelF := fun (n : Z) (_ : list arg) (c : pst) s => if n <? 0 then Top c s else RelAcc n c s).
  destruct (I_sys_gen c0 [] [] [] None Tr "accept" lfd [AInt lfd] RelF w k w1 Stable_Tr
              (proj1 (Iv_Rel_X c0 [] [] [] w) H)) as [[n [rest [Hk HI]]]|[Hk HI]]; auto.
  - intros m cs _ [[HR HF] _]. apply FdR_sys; [unfold sysname; cbn; tauto|exact HF|].
    intros HL. eapply Led_owns_listener; eauto.
  - intros m cs s n [[HR HF] _]. unfold RelF. cbn [fst snd] in *.
    destruct HF as [HF|HF].
    { rewrite HF. destruct (n <? 0); [split; [exact HR|left; exact HF]|split; [exact HR|left; exact HF]]. }
    destruct (f_dead cs) eqn:Hd.
    { destruct (n <? 0); [split; [exact HR|left; exact Hd]|split; [exact HR|left; exact Hd]]. }
    unfold fd_result. rewrite (l_last _ _ _ _ _ HF). cbn [sym_eqb String.eqb Ascii.eqb Bool.eqb andb].
    change (sym_eqb "accept" "close") with false. change (sym_eqb "accept" "accept") with true.
    cbn [andb]. destruct (n <? 0) eqn:Hn.
    + assert (0 <=? n = false) by lia. rewrite H0. split; [exact HR|right].
      cbn [fst snd]. eapply Led_set_last; eauto.
    + assert (0 <=? n = true) by lia. rewrite H0. split; [exact HR|]. cbn [fst snd].
      destruct (Led_fresh _ _ _ _ _ n Hd HF) as [Hx|[Hx1 [Hx2 [Hx3 Hx4]]]].
      * left. cbn. exact Hx.
      * right. unfold fresh_fd in *. destruct (owns cs n); [discriminate|]. cbn [f_owned f_static f_dead mkFd] in *.
        split; [|split; [exact Hx3|exact Hx4]].
        destruct Hx2 as [A1 A2 A3 A4]. constructor; auto.
  - unfold RelF in HI. subst k. unfold kres_of. destruct (n <? 0).
    + destruct rest as [|[z|b|e] rest']; exact HI.
    + exact HI.
  - subst k. apply HI.
Qed.

Lemma I_el_accept : forall fuel lfd is_udp w,
  Iv Top w -> In lfd (map fst (l_listeners (st w))) ->
  Iv Top (snd (el_accept fuel lfd is_udp w)).
Proof.
  intros fuel lfd is_udp w H Hl. unfold el_accept.
  destruct is_udp; [apply I_el_read_udp; auto; discriminate|].
  destruct (sys "accept" [AInt lfd] w) as [k w1] eqn:Hs.
  assert (HA := I_sys_accept lfd w k w1 H Hl Hs).
  destruct k as [nfd ex|e|]; [|match goal with |- context [if ?b then _ else _] => destruct b end; exact HA|exact HA].
  assert (H1 : Iv Top w1).
  { eapply Inv_weaken; [exact HA|]. intros c _ [HR HF]. split; [exact HR|].
    destruct HF as [HF|[HF _]]; [left|right]; exact HF. }
  destruct (fd_in_use (st w1) nfd); [eapply Inv_desync; exact H1|].
  cbv zeta. apply I_el_register0.
  eapply Inv_with_st; [exact HA|]. intros [m cs] _ [HR HF]. cbn [fst snd] in *.
  split; cbn [fst snd].
  - apply (Rst_newconn [] [] [] m (st w1) (mkConn nfd false false [] [] [] false true) true HR); reflexivity.
  - destruct HF as [HF|[HF [Hz Hu]]]; [left; exact HF|right].
    apply (Led_newconn [] [] [] m None cs (st w1) (mkConn nfd false false [] [] [] false true) true HR HF eq_refl).
    intros _. split; [exact Hz|exact Hu].
Qed.

Lemma I_dispatch : forall fuel fd ev w, Iv Top w -> Iv Top (snd (dispatch fuel fd ev w)).
Proof.
  intros fuel fd ev w H. unfold dispatch.
  destruct (alookup fd (l_reg (st w))) as [cid|] eqn:Hreg.
  - destruct (polopt (st w) && c_udp (wc w cid)).
    + apply I_el_read_udp; [exact H|discriminate|intros _; eauto].
    + apply I_process_io; exact H.
  - destruct (alookup fd (l_listeners (st w))) as [is_udp|] eqn:Hlis.
    + apply I_el_accept; [exact H|]. eapply alookup_some_in; eauto.
    + destruct (polopt (st w)); [exact H|].
      destruct (epctl "del" fd false false w) as [r w1] eqn:He. cbn [snd].
      apply Iv_Rel_X. eapply (I_epctl c0 [] [] [] Tr "del"); [apply Stable_Tr|cbn; tauto|apply Iv_Rel_X; exact H| |exact He].
      intros m cs _ _ Hne. congruence.
Qed.


(* ---- tasks ---- *)

Lemma I_acb : forall R w (cb : bool) a, Iv R w -> Iv R (if cb then emit (obs "acb" a) w else w).
Proof. intros. destruct cb; [apply I_quiet; [apply quiet_acb|reflexivity|exact H]|exact H]. Qed.

Lemma I_run_task : forall fuel t w,
  Iv (Rel [] (pop_P t []) []) w -> Iv Top (snd (run_task fuel t w)).
Proof.
  intros fuel t w H. destruct t as [cid cb|cid d cb|cid segs cb|cid cb|cid cb|cid|cid| |]; cbn [run_task].
  - destruct (el_register0 fuel cid w) as [r w1] eqn:He. cbn [snd].
    assert (H1 : Iv Top w1).
    { assert (Hx := I_el_register0 fuel cid w H). rewrite He in Hx. exact Hx. }
    destruct cb; [apply I_ghost; [cbn; tauto|exact H1]|exact H1].
  - destruct (negb (c_opened (wc w cid))); cbn [snd]; [apply I_acb; exact H|].
    destruct (conn_write fuel cid d w) as [[n ok] w1] eqn:He. cbn [snd]. apply I_acb.
    assert (Hx := I_conn_write c0 fuel cid d w [] [] [] H). rewrite He in Hx. exact Hx.
  - destruct (negb (c_opened (wc w cid))); cbn [snd]; [apply I_acb; exact H|].
    destruct (conn_writev fuel cid segs w) as [[n ok] w1] eqn:He. cbn [snd]. apply I_acb.
    assert (Hx := I_conn_writev c0 fuel cid segs w [] [] [] H). rewrite He in Hx. exact Hx.
  - destruct (el_wake fuel cid w) as [r w1] eqn:He. cbn [snd]. apply I_acb.
    assert (Hx := I_el_wake fuel cid w H). rewrite He in Hx. exact Hx.
  - destruct (el_close fuel cid true w) as [r w1] eqn:He. cbn [snd]. apply I_acb.
    assert (Hx := I_el_close c0 fuel cid true w [] [] [] H). rewrite He in Hx. exact Hx.
  - apply I_el_read0. exact H.
  - apply I_el_write. exact H.
  - cbn [snd]. apply I_quiet; [apply quiet_exec|reflexivity|exact H].
  - exact H.
Qed.

Lemma I_drain_urgent : forall fuel w, Iv Top w -> Iv Top (snd (drain_urgent fuel w)).
Proof.
  induction fuel as [|f IH]; intros w H; cbn [drain_urgent].
  { cbn [snd]. eapply Inv_desync; eauto. }
  destruct (halt w); [exact H|].
  destruct (l_urgent (st w)) as [|t rest] eqn:Hu; [exact H|].
  set (w1 := with_st w (set_queues (st w) rest (l_low (st w)) (l_flag (st w)))).
  assert (H1 : Iv (Rel [] (pop_P t []) []) w1).
  { unfold w1. eapply Inv_with_st; [exact H|]. intros c _ HR. apply RelQ_pop_urgent; auto. }
  destruct (run_task f t w1) as [r w2] eqn:Hr.
  assert (H2 : Iv Top w2).
  { assert (Hx := I_run_task f t w1 H1). rewrite Hr in Hx. exact Hx. }
  destruct r; try (apply IH; exact H2). exact H2.
Qed.

Lemma I_drain_low : forall fuel k w, Iv Top w -> Iv Top (snd (drain_low fuel k w)).
Proof.
  induction fuel as [|f IH]; intros k w H; cbn [drain_low].
  { cbn [snd]. eapply Inv_desync; eauto. }
  destruct (halt w); [exact H|].
  destruct (k <=? 0); [exact H|].
  destruct (l_low (st w)) as [|t rest] eqn:Hu; [exact H|].
  set (w1 := with_st w (set_queues (st w) (l_urgent (st w)) rest (l_flag (st w)))).
  assert (H1 : Iv (Rel [] (pop_P t []) []) w1).
  { unfold w1. eapply Inv_with_st; [exact H|]. intros c _ HR. apply RelQ_pop_low; auto. }
  destruct (run_task f t w1) as [r w2] eqn:Hr.
  assert (H2 : Iv Top w2).
  { assert (Hx := I_run_task f t w1 H1). rewrite Hr in Hx. exact Hx. }
  destruct r; try (apply IH; exact H2). exact H2.
Qed.

Lemma I_chores : forall fuel w, Iv Top w -> Iv Top (snd (chores fuel w)).
Proof.
  intros fuel w H. unfold chores.
  destruct (drain_urgent fuel w) as [r1 w1] eqn:H1e.
  assert (H1 : Iv Top w1).
  { assert (Hx := I_drain_urgent fuel w H). rewrite H1e in Hx. exact Hx. }
  assert (Hrest : Iv Top (snd (match drain_low fuel (l_maxlow (st w1)) w1 with
    | (RShutdown, w2) => (RShutdown, w2)
    | (_, w2) =>
      let s := set_flag (st w2) false in
      match l_urgent s, l_low s with
      | [], [] => (RNil, with_st w2 s)
      | _, _ => let '(_, w3) := efd_write (S (List.length (inp w2))) (with_st w2 (set_flag s true)) in (RNil, w3)
      end end))).
  { destruct (drain_low fuel (l_maxlow (st w1)) w1) as [r2 w2] eqn:H2e.
    assert (H2 : Iv Top w2).
    { assert (Hx := I_drain_low fuel (l_maxlow (st w1)) w1 H1). rewrite H2e in Hx. exact Hx. }
    assert (Hcont : Iv Top (snd (
      let s := set_flag (st w2) false in
      match l_urgent s, l_low s with
      | [], [] => (RNil, with_st w2 s)
      | _, _ => let '(_, w3) := efd_write (S (List.length (inp w2))) (with_st w2 (set_flag s true)) in (RNil, w3)
      end))).
    { cbv zeta.
      assert (Hs : Iv Top (with_st w2 (set_flag (st w2) false))).
      { eapply Inv_with_st; [exact H2|]. intros c _ HR. apply RelQ_set_flag; exact HR. }
      assert (He : Iv Top (snd (efd_write (S (List.length (inp w2)))
                  (with_st w2 (set_flag (set_flag (st w2) false) true))))).
      { apply Iv_Rel_X. apply I_efd_write; [apply Stable_Tr|]. apply Iv_Rel_X.
        eapply Inv_with_st; [exact H2|]. intros c _ HR. apply RelQ_set_flag, RelQ_set_flag; exact HR. }
      destruct (efd_write _ _) as [r3 w3]. cbn [snd] in He.
      destruct (l_urgent (set_flag (st w2) false)); destruct (l_low (set_flag (st w2) false)); cbn [snd]; auto. }
    destruct r2; try exact Hcont. exact H2. }
  destruct r1; try exact Hrest. exact H1.
Qed.

Lemma I_events_n : forall fuel n evs b w, (List.length evs <= n)%nat ->
  Iv Top w -> Iv Top (snd (events fuel evs b w)).
Proof.
  intros fuel. induction n as [|n IH]; intros evs b w Hn H.
  - destruct evs; [exact H|cbn in Hn; lia].
  - destruct evs as [|a1 evs]; [exact H|]. destruct a1 as [fd|x|x]; try exact H.
    destruct evs as [|a2 evs]; [exact H|]. destruct a2 as [ev|x|x]; try exact H.
    cbn [events]. destruct (halt w); [exact H|].
    assert (Hn' : (List.length evs <= n)%nat) by (cbn in Hn; lia).
    destruct (fd =? l_efd (st w)); [apply IH; auto|].
    destruct (dispatch fuel fd ev w) as [r w1] eqn:Hd.
    assert (H1 : Iv Top w1).
    { assert (Hx := I_dispatch fuel fd ev w H). rewrite Hd in Hx. exact Hx. }
    destruct r; try (apply IH; auto); exact H1.
Qed.

Lemma I_events : forall fuel evs b w, Iv Top w -> Iv Top (snd (events fuel evs b w)).
Proof. intros. eapply I_events_n; eauto. Qed.

(* ---- shutdown and the polling loop ---- *)

Lemma close_conns_S_eqb : forall f w,
  close_conns (S f) w =
  if halt w then w else
  match l_reg (st w) with
  | [] => w
  | _ =>
    match pull_gen true w with
    | (Some l, w1) =>
        if String.eqb (fst l) "pick" then
          match snd l with
          | [AInt cid] => let '(_, w2) := el_close f cid true w1 in close_conns f w2
          | _ => desync "expected-pick" w1
          end
        else desync "expected-pick" w1
    | (None, w1) => w1
    end
  end.
Proof.
  intros. cbn [close_conns]. destruct (halt w); [reflexivity|].
  destruct (l_reg (st w)); [reflexivity|].
  destruct (pull_gen true w) as [[[ln la]|] w1]; [|reflexivity]. cbn [fst snd].
  destruct (String.eqb_spec ln "pick") as [->|Hne].
  - destruct la as [|[z|b|s0] [|a2 la]]; reflexivity.
  - sdef ln.
Qed.

Lemma I_close_conns : forall fuel w, Iv Top w -> Iv Top (close_conns fuel w).
Proof.
  induction fuel as [|f IH]; intros w H.
  { cbn [close_conns]. eapply Inv_desync; eauto. }
  rewrite close_conns_S_eqb. destruct (halt w); [exact H|].
  destruct (l_reg (st w)) as [|r0 rs]; [exact H|].
  destruct (pull_gen true w) as [o w1] eqn:Hp.
  assert (HP := I_pull c0 [] [] [] Tr true w o w1 Stable_Tr (proj1 (Iv_Rel_X c0 [] [] [] w) H) Hp).
  destruct o as [l|]; [|apply HP]. apply Iv_Rel_X in HP.
  destruct (String.eqb (fst l) "pick"); [|eapply Inv_desync; exact HP].
  destruct (snd l) as [|[cid|b|s0] [|a2 la]]; try (eapply Inv_desync; exact HP).
  destruct (el_close f cid true w1) as [r w2] eqn:He.
  apply IH. assert (Hx := I_el_close c0 f cid true w1 [] [] [] HP). rewrite He in Hx. exact Hx.
Qed.

Definition pending_marks (w : world) : world :=
  fold_left (fun w fc => if c_udp (wc w (snd fc)) then w else
                         emit ("g", [ASym "pending"; AInt (snd fc); AInt (fst fc);
                                     AInt (zlen (c_out (wc w (snd fc))))]) w) (l_reg (st w)) w.

Lemma polling_S_eqb : forall f w,
  polling (S f) w =
  let w := emit ("g", [ASym "count"; AInt (zlen (l_reg (st w))); ABytes []]) w in
  let w := pending_marks w in
  match pull w with
  | (None, w1) => w1
  | (Some l, w1) =>
      if String.eqb (fst l) "wait" then
        match events f (snd l) false w1 with
        | (RShutdown, _, w2) => close_conns f w2
        | (RAccept, _, w2) => close_conns f w2
        | (_, true, w2) =>
            match chores f w2 with
            | (RShutdown, w3) => close_conns f w3
            | (_, w3) => polling f w3
            end
        | (_, false, w2) => polling f w2
        end
      else desync "expected-wait" w1
  end.
Proof.
  intros. cbn [polling]. cbv zeta.
  destruct (pull _) as [[[ln la]|] w1]; [|reflexivity]. cbn [fst snd].
  destruct (String.eqb_spec ln "wait") as [->|Hne]; [reflexivity|]. sdef ln.
Qed.

Lemma I_polling : forall fuel w, Iv Top w -> Iv Top (polling fuel w).
Proof.
  induction fuel as [|f IH]; intros w H.
  { cbn [polling]. eapply Inv_desync; eauto. }
  rewrite polling_S_eqb. cbv zeta.
  set (w0 := emit ("g", [ASym "count"; AInt (zlen (l_reg (st w))); ABytes []]) w).
  assert (H0 : Iv Top w0).
  { unfold w0. eapply Inv_emit; [exact H|reflexivity|]. intros [m cs] _ HR.
    exists (m, cs). split; [|exact HR]. apply pstep_count.
    symmetry. apply (r_count _ _ _ _ _ (proj1 HR)). }
  assert (H0' : Iv Top (pending_marks w0)).
  { unfold pending_marks. generalize (l_reg (st w0)). intros rl. revert H0. generalize w0.
    induction rl as [|fc rl IHr]; intros wx Hx; cbn [fold_left]; [exact Hx|].
    apply IHr. destruct (c_udp (wc wx (snd fc))); [exact Hx|].
    apply I_quiet; [apply quiet_pending|reflexivity|exact Hx]. }
  destruct (pull (pending_marks w0)) as [o w1] eqn:Hp.
  assert (HP := I_pull c0 [] [] [] Tr false _ o w1 Stable_Tr (proj1 (Iv_Rel_X c0 [] [] [] _) H0') Hp).
  destruct o as [l|]; [|apply HP]. apply Iv_Rel_X in HP.
  destruct (String.eqb (fst l) "wait"); [|eapply Inv_desync; exact HP].
  destruct (events f (snd l) false w1) as [[r b] w2] eqn:He.
  assert (H2 : Iv Top w2).
  { assert (Hx := I_events f (snd l) false w1 HP). rewrite He in Hx. exact Hx. }
  assert (Hch : Iv Top (match chores f w2 with
            | (RShutdown, w3) => close_conns f w3
            | (_, w3) => polling f w3 end)).
  { destruct (chores f w2) as [r3 w3] eqn:Hc.
    assert (H3 : Iv Top w3).
    { assert (Hx := I_chores f w2 H2). rewrite Hc in Hx. exact Hx. }
    destruct r3; try (apply IH; exact H3). apply I_close_conns; exact H3. }
  destruct r; try (apply I_close_conns; exact H2); destruct b; try exact Hch; apply IH; exact H2.
Qed.

End Top.

(* ------------------------------------------------------------------ *)
(* every run *)

Definition pst0 (i : list line) : pst := ([], mkFd [] (statics i) None).

Lemma init_Rel : forall i w, init_world i = Some w ->
  log w = [] /\ Rel [] [] [] (pst0 i) (st w).
Proof.
  intros i w Hi. unfold pst0, statics. rewrite Hi.
  unfold init_world in Hi.
  destruct i as [|[ln la] r]; [discriminate|].
  destruct (String.eqb_spec ln "cfg") as [->|Hne].
  2:{ exfalso. assert (E : init_world ((ln, la) :: r) = None) by (unfold init_world; sdef ln).
      unfold init_world in E. congruence. }
  destruct la as [|[et|?|?] [|[chunk|?|?] [|[bufcap|?|?] [|[efd|?|?] [|[thr|?|?] [|[maxlow|?|?] [|? ?]]]]]]];
    try discriminate.
  destruct (take_listeners r) as [ls r'] eqn:Hl. inversion Hi; subst w. cbn [log st].
  split; [reflexivity|].
  set (s := mkL (et =? 1) chunk bufcap efd thr maxlow ls [] [] [] [] false 0).
  assert (Hg : forall cid, getc s cid = dummy_conn) by reflexivity.
  split; cbn [fst snd].
  - constructor; try (intros; rewrite ?Hg in *; cbn in *; try discriminate; try tauto; auto).
    all: try constructor.
  - right. constructor; try reflexivity.
    + intros cid [Hc|[[]|[]]]. rewrite Hg in Hc. discriminate.
    + intros c1 c2 [Hc|[[]|[]]]. rewrite Hg in Hc. discriminate.
Qed.

Theorem product_holds : forall i t, run_history i = Some t ->
  runs pstep (pst0 i) t <> Fail.
Proof.
  intros i t Hr. unfold run_history in Hr.
  destruct (init_world i) as [w|] eqn:Hi; [|discriminate].
  assert (E : rev (log (polling (init_fuel i) w)) = t) by congruence. rewrite <- E. clear E Hr.
  destruct (init_Rel i w Hi) as [Hlog HR].
  assert (H0 : Inv pstep (pst0 i) (Rel [] [] []) w).
  { unfold Inv. rewrite Hlog. cbn [rev runs]. intros _. exact HR. }
  assert (Hf := I_polling (pst0 i) (init_fuel i) w H0).
  unfold Inv in Hf. destruct (runs pstep (pst0 i) (rev (log (polling (init_fuel i) w)))); congruence.
Qed.
