//go:build verif

//verif:target pkg/queue/export_verif.go

package queue

import "unsafe"

// VerifLFQLayout exposes the addresses of the shared words of a lock-free
// queue and the offset of node.next, so that the harness can classify the
// locations reported by the vatomic shim (head / tail / length / node-next).
func VerifLFQLayout(q AsyncTaskQueue) (head, tail *unsafe.Pointer, length *int32, nextOff uintptr, ok bool) {
	l, ok := q.(*lockFreeQueue)
	if !ok {
		return nil, nil, nil, 0, false
	}
	return &l.head, &l.tail, &l.length, unsafe.Offsetof(node{}.next), true
}
