(* Specification side of C11: a FIFO queue of bytes (a plain list, head
   first), the behaviour of the scripted io.Reader, and what each operation of
   linkedlist.Buffer must do to the queue.  Definitions only.

   The relation is parametric in how a stored byte is looked at
   ([f : sbyte -> A]): with [f := id] the queue holds symbolic bytes (A =
   sbyte), with [f := deref st] it holds the byte values visible under the
   caller memory [st] (A = Z, the FIFO over [list Z]). *)
From GV Require Import Lib.Trace Model.LList.
Open Scope Z_scope.

(* the queue a buffer represents, and its representation invariant *)
Definition content (b : buffer) : list sbyte := List.concat (segs b).

Definition inv (b : buffer) : Prop :=
  size b = zlen (segs b) /\ bytes b = zlen (content b) /\ Forall (fun s => s <> []) (segs b).

(* the byte values the caller sees under its memory *)
Definition vcontent (w : world) : list Z := map (deref (cells w)) (content (buf w)).

(* io.Reader / io.Writer contract for the scripts: counts are not negative *)
Definition script_ok (sc : list (Z * err)) : Prop := Forall (fun ke => 0 <= fst ke) sc.

(* Every byte the scripted reader hands out when it is read to the end with
   512-byte buffers -- up to and including the response that carries the first
   non-nil error -- and the error ReadFrom has to report (EOF is not an error). *)
Fixpoint reader_run (script : list (Z * err)) (src : list Z) : list Z * err :=
  match script with
  | [] => ([], ENil)
  | (k, e) :: rest =>
      let m := Z.min k (Z.min minRead (zlen src)) in
      let d := ztake m src in
      match e with
      | ENil => let '(d', e') := reader_run rest (zdrop m src) in ((d ++ d')%list, e')
      | EEOF => (d, ENil)
      | _ => (d, e)
      end
  end.

(* preconditions of an operation: len(p) >= 0, contract-respecting scripts *)
Definition bop_ok (o : bop) : Prop :=
  match o with
  | BRead n => 0 <= n
  | BReadFrom _ sc => script_ok sc
  | BWriteTo sc => script_ok sc
  | _ => True
  end.

Section Fifo.
Context {A : Type} (f : sbyte -> A).

Definition lits (p : list Z) : list A := map f (map Lit p).

(* fifo_step q o r q' : on queue q, operation o may answer r and leave q' *)
Inductive fifo_step : list A -> bop -> out A -> list A -> Prop :=
| FS_PushBack q p : fifo_step q (BPushBack p) OutNone (q ++ lits p)
| FS_PushFront q p : fifo_step q (BPushFront p) OutNone (lits p ++ q)
| FS_Append q s : fifo_step q (BAppend s) OutNone (q ++ map f s)
| FS_Read q n : 0 <= n ->
    fifo_step q (BRead n)
      (OutRead (zlen (ztake n q)) (if (0 <? n) && (zlen q =? 0) then EEOF else ENil) (ztake n q))
      (zdrop n q)
| FS_PeekAll q n bss : n <= 0 \/ n = MaxInt32 -> List.concat bss = ztake MaxInt32 q ->
    fifo_step q (BPeek n) (OutPeek (Ret (ENil, bss))) q
| FS_PeekShort q n : 0 < n -> n <> MaxInt32 -> zlen q < n ->
    fifo_step q (BPeek n) (OutPeek (Ret (EShortBuf, []))) q
| FS_PeekPrefix q n bss : 0 < n <= zlen q -> n <> MaxInt32 -> List.concat bss = ztake n q ->
    fifo_step q (BPeek n) (OutPeek (Ret (ENil, bss))) q
  (* PeekWithBytes: the given slices come first and count towards n *)
| FS_PeekBAll q n bs bss : n <= 0 \/ n = MaxInt32 ->
    List.concat bss = ztake MaxInt32 (lits (List.concat bs) ++ q) ->
    fifo_step q (BPeekB n bs) (OutPeek (Ret (ENil, bss))) q
| FS_PeekBShort q n bs : 0 < n -> n <> MaxInt32 -> zlen (List.concat bs) + zlen q < n ->
    fifo_step q (BPeekB n bs) (OutPeek (Ret (EShortBuf, []))) q
| FS_PeekBPrefix q n bs bss : 0 < n <= zlen (List.concat bs) + zlen q -> n <> MaxInt32 ->
    List.concat bss = ztake n (lits (List.concat bs) ++ q) ->
    fifo_step q (BPeekB n bs) (OutPeek (Ret (ENil, bss))) q
| FS_PopEmpty : fifo_step [] BPop (OutPop None) []
| FS_Pop s q : s <> [] -> fifo_step (s ++ q) BPop (OutPop (Some s)) q
| FS_Discard q n :
    fifo_step q (BDiscard n) (OutDiscard (zlen (ztake n q))) (zdrop n q)
| FS_ReadFrom q src sc : script_ok sc ->
    fifo_step q (BReadFrom src sc)
      (OutReadFrom (Ret (zlen (fst (reader_run sc src)), snd (reader_run sc src))))
      (q ++ lits (fst (reader_run sc src)))
  (* the writer receives a prefix of the queue, exactly that prefix leaves
     the queue, the count is its length, and a nil error means all of it *)
| FS_WriteTo q sc k e : script_ok sc -> 0 <= k <= zlen q -> (e = ENil -> k = zlen q) ->
    fifo_step q (BWriteTo sc) (OutWriteTo (Ret (k, e, ztake k q))) (zdrop k q)
| FS_Reset q : fifo_step q BReset OutNone []
| FS_Alloc q n : fifo_step q (BAlloc n) (OutAlloc (Z.max n 0)) q
| FS_Nop q : fifo_step q BNop OutNone q.

Inductive fifo_run : list A -> list bop -> list (out A) -> list A -> Prop :=
| FR_nil q : fifo_run q [] [] q
| FR_cons q o r q1 os rs q2 :
    fifo_step q o r q1 -> fifo_run q1 os rs q2 -> fifo_run q (o :: os) (r :: rs) q2.

End Fifo.

(* ---- the caller's view: byte values, caller memory, caller writes ---- *)

(* is cell c a buffer that was handed to Append (aliased by a node)? *)
Definition aliased_cell (st : store) (c : Z) : bool :=
  if c <? 0 then false else fst (nth (Z.to_nat c) st (false, [])).

Definition is_mut (o : op) : bool := match o with OMut _ _ _ => true | _ => false end.

(* wfifo_step st q o r st' q': with caller memory st and queue q (byte
   values), the caller-level operation o answers r, leaving st' and q'.
   A caller write to a buffer it passed to PushBack / PushFront does not
   change the queue; a write to a buffer it gave away with Append may change
   byte values but not their number. *)
Inductive wfifo_step : store -> list Z -> op -> out Z -> store -> list Z -> Prop :=
| WS_op st q o r q' : is_mut o = false ->
    fifo_step (deref (fst (lower st o))) q (snd (lower st o)) r q' ->
    wfifo_step st q o r (fst (lower st o)) q'
| WS_mut_copied st q c i v : aliased_cell st c = false ->
    wfifo_step st q (OMut c i v) OutNone (mutate st c i v) q
| WS_mut_aliased st q q' c i v : aliased_cell st c = true -> zlen q' = zlen q ->
    wfifo_step st q (OMut c i v) OutNone (mutate st c i v) q'.

Inductive wfifo_run : store -> list Z -> list op -> list (out Z) -> store -> list Z -> Prop :=
| WR_nil st q : wfifo_run st q [] [] st q
| WR_cons st q o r st1 q1 os rs st2 q2 :
    wfifo_step st q o r st1 q1 -> wfifo_run st1 q1 os rs st2 q2 ->
    wfifo_run st q (o :: os) (r :: rs) st2 q2.

Definition op_ok (o : op) : Prop :=
  match o with
  | OBuf (BPushBack _) | OBuf (BPushFront _) | OBuf (BAppend _) | OBuf BNop => False  (* pushes go through OPushBack/OPushFront/OAppend *)
  | OBuf bo => bop_ok bo
  | _ => True
  end.
