(* C06 — graceful shutdown is complete, bounded and final.
   Statements only; proofs live in Proofs/Engine*.v.
   Model: Model/Engine.v.  "Bounded time" is proved as a bounded number of engine steps:
   the engine's own steps strictly decrease `measure`, every other step (environment: new
   connections, traffic, user calls, timer ticks) adds at most one, and before the return
   some engine step is always enabled -- so under a fair scheduler and terminating callbacks
   Run returns; wall-clock time is not modelled.  Assumed (C03): a polling loop with a
   queued task is enabled (its wake-up is not lost).
   e_hist is the history, NEWEST FIRST; returned s <-> Run / Client.Stop has returned. *)
From GV Require Import Lib.Trace Lib.Interleave Model.Engine Proofs.EngineBase Proofs.EngineInv Proofs.EngineHist
  Proofs.EngineConns Proofs.EngineWorkers Proofs.EngineProgress Proofs.EngineProofs Proofs.EngineExtra
  Proofs.EngineTick.
From Coq Require Import List ZArith.
Import ListNotations.
Open Scope list_scope.

(* every documented source of shutdown raises `requested` (for a client: Client.Stop makes the
   stop pending): Engine.Stop, gnet.Stop, Client.Stop ... *)
Theorem C06_stop_requests :
  (forall s g e s' evs, get_user s g = Some UIdle -> stop_entry (phase_s s) = None ->
     estep_opt s (TU g) (CCall (KStop e)) = Some (s', evs) -> requested s' = true) /\
  (forall s g e s' evs, get_user s g = Some UIdle -> e_inall s = true ->
     estep_opt s (TU g) (CCall (KPkgStop true e)) = Some (s', evs) -> requested s' = true) /\
  (forall s s' evs, rstep s CClientStop = Some (s', evs) -> requested s' = true /\ stop_pending s' = true).
Proof. exact stop_requests. Qed.
Print Assumptions C06_stop_requests.

(* ... a Shutdown action returned from OnOpen / OnTraffic, or from the OnClose they cause
   (also when the close comes from a failed write inside the callback), from OnClose on a
   peer close, from OnTraffic of a datagram ... *)
Theorem C06_io_shutdown_requests : forall i s e s' evs,
  lstep i s (CIo e) = Some (s', evs) -> io_asks e = true -> requested s' = true.
Proof. exact io_shutdown_requests. Qed.
Print Assumptions C06_io_shutdown_requests.

(* ... from OnOpen (and its OnClose) of a registered / accepted connection ... *)
Theorem C06_register_shutdown_requests : forall i s k h s' evs l cid o,
  lstep i s (CRun k h) = Some (s', evs) -> get_loop s i = Some l -> nth_error (l_q l) k = Some (TReg cid o) ->
  cb_asks h = true -> requested s' = true.
Proof. exact register_shutdown_requests. Qed.
Print Assumptions C06_register_shutdown_requests.

(* ... and from OnTick, as long as the ticker's loop has not exited already *)
Theorem C06_tick_shutdown_requests : forall s s' evs, Inv_pc s ->
  tstep s (CTick AShut) = Some (s', evs) ->
  (if c_reactor (e_cfg s) then l_pc (e_ing s) <> LExited
   else exists l, get_loop s 0 = Some l /\ l_pc l <> LExited) ->
  requested s' = true.
Proof. exact tick_shutdown_requests. Qed.
Print Assumptions C06_tick_shutdown_requests.

(* ... and the side condition about the exited loop is not needed in reachable states: a loop
   (event loop or main reactor) exits only after the engine has been cancelled ... *)
Theorem C06_exited_cancelled : forall s, ereachable s ->
  (forall i l, get_loop s i = Some l -> l_pc l = LExited -> e_cancel s = true) /\
  (l_pc (e_ing s) = LExited -> e_cancel s = true).
Proof. exact exited_cancelled. Qed.
Print Assumptions C06_exited_cancelled.

(* ... so OnTick returning Shutdown raises `requested` in every reachable state of a
   configuration in which the ticker's loop exists (with reactors: always; without: at least
   one event loop, which gnet guarantees: determineEventLoops returns at least 1) ... *)
Theorem C06_tick_shutdown_requests_reachable : forall s s' evs, ereachable s ->
  (c_reactor (e_cfg s) = false -> c_nloops (e_cfg s) <> O) ->
  tstep s (CTick AShut) = Some (s', evs) -> requested s' = true.
Proof. exact tick_shutdown_requests_reachable. Qed.
Print Assumptions C06_tick_shutdown_requests_reachable.

(* ... whereas the statement without the hypothesis on the configuration is false in the model,
   which accepts a configuration without reactors and without loops as initial (witness:
   tick_witness in Proofs/EngineTick.v: boot, start, tick) *)
Theorem C06_tick_shutdown_requests_full_refuted :
  ~ (forall s s' evs, ereachable s -> tstep s (CTick AShut) = Some (s', evs) -> requested s' = true).
Proof. exact tick_shutdown_requests_full_refuted. Qed.
Print Assumptions C06_tick_shutdown_requests_full_refuted.

Theorem C06_inv_pc_reachable : forall s, ereachable s -> Inv_pc s.
Proof. exact inv_pc_reachable. Qed.
Print Assumptions C06_inv_pc_reachable.

(* the variant: engine steps decrease the measure; any step adds at most one; no reachable
   stuck state between the request and the return; hence in every execution the number p of
   engine steps is bounded by the measure at its start plus the number o of other steps *)
Theorem C06_shutdown_variant :
  (forall s t c s' evs, ereachable s -> estep_opt s t c = Some (s', evs) ->
     is_progress s t c = true -> (measure (push evs s') < measure s)%nat) /\
  (forall s t c s' evs, ereachable s -> estep_opt s t c = Some (s', evs) ->
     (measure (push evs s') <= measure s + 1)%nat) /\
  (forall s, ereachable s -> shutdown_requested s -> returned s = false -> e_r s <> R0 ->
     exists t c, is_progress s t c = true /\ enabled s t c) /\
  (forall s p o s', ereachable s -> pexec s p o s' -> (p + measure s' <= measure s + o)%nat).
Proof. exact shutdown_variant. Qed.
Print Assumptions C06_shutdown_variant.

(* a connection is opened at most once and closed at most as often as opened; when Run
   (Client.Stop) is about to return, and ever after, every opened connection has received
   its single OnClose *)
Theorem C06_all_closed_before_return : forall s cid, ereachable s ->
  (opens cid (e_hist s) <= 1)%Z /\ (closes cid (e_hist s) <= opens cid (e_hist s))%Z /\
  ((e_r s = RReturn \/ e_r s = RReturned) -> closes cid (e_hist s) = opens cid (e_hist s)).
Proof. exact all_closed_before_return. Qed.
Print Assumptions C06_all_closed_before_return.

(* OnShutdown runs at most once, and exactly once by the time of the return iff the engine was started *)
Theorem C06_onshutdown_once : forall s, ereachable s ->
  (onshutdowns (e_hist s) <= 1)%Z /\
  (returned s = true -> onshutdowns (e_hist s) = if e_started s then 1%Z else 0%Z).
Proof. exact onshutdown_once. Qed.
Print Assumptions C06_onshutdown_once.

(* one return; no callback event is newer than it *)
Theorem C06_no_callback_after_return : forall s, ereachable s ->
  no_cb_after_ret (e_hist s) = true /\ (returns (e_hist s) <= 1)%Z /\
  (returned s = true <-> returns (e_hist s) = 1%Z).
Proof. exact no_callback_after_return. Qed.
Print Assumptions C06_no_callback_after_return.

(* after the return no thread is able to run a callback *)
Theorem C06_no_callback_enabled_after_return : forall s t c s' evs, ereachable s -> returned s = true ->
  estep_opt s t c = Some (s', evs) -> Forall (fun e => is_cb (snd e) = false) evs.
Proof. exact no_callback_enabled_after_return. Qed.
Print Assumptions C06_no_callback_enabled_after_return.

(* a Shutdown action returned from OnBoot: Run returns in its next step and nothing was started *)
Theorem C06_onboot_shutdown : forall s, c_client (e_cfg s) = false -> e_r s = RBooted AShut ->
  estep_opt s TR CNone = Some (set_r s RReturned, [(TR, KRet)]) /\
  (ereachable s -> e_started s = false /\
     Forall (fun l => l_pc l = LIdle) (e_loops s) /\ l_pc (e_ing s) = LIdle /\ e_t s = TIdle).
Proof. exact onboot_shutdown. Qed.
Print Assumptions C06_onboot_shutdown.

(* ---- non-vacuity: evaluated by the kernel *)

Definition ex6_cfg : config := mkCfg false 1 true true 2.
Definition wf_shut : hres := mkH ANone true AShut.

(* two connections on two loops; a write fails inside OnTraffic of connection 0 and its OnClose
   returns Shutdown (the path fixed in conn.write): shutdown is requested, nothing has returned *)
Definition ex6_requested : estate :=
  fst (run estep (einit ex6_cfg 1)
         [ (TR, CBoot ANone); (TR, CNone); (TR, CNone);
           (TA, CAccept 0); (TL 0, CRun 0 h_none); (TA, CAccept 1); (TL 1, CRun 0 h_none);
           (TL 0, CIo (IoTraffic 0 wf_shut)) ]).
Example C06_ex_requested :
  shutdown_requested ex6_requested /\ returned ex6_requested = false /\ e_r ex6_requested = RServing /\
  measure ex6_requested = 21%nat /\ io_asks (IoTraffic 0 wf_shut) = true.
Proof. vm_compute. repeat split; intros; discriminate. Qed.

(* ... and the engine steps that follow bring Run to its return: both connections closed
   once, OnShutdown once, nothing after the return *)
Definition ex6_done : estate :=
  fst (run estep ex6_requested
         [ (TR, CNone); (TR, CNone); (TR, CNone); (TR, CNone);
           (TL 0, CRun 0 h_none); (TL 0, CNone); (TL 0, CNone);
           (TL 1, CRun 0 h_none); (TL 1, CNone); (TL 1, CNone); (TL 1, CNone);
           (TA, CRun 0 h_none); (TA, CNone); (TA, CNone); (TT, CNone);
           (TR, CNone); (TR, CNone); (TR, CNone); (TR, CNone) ]).
Example C06_ex_done :
  returned ex6_done = true /\ measure ex6_done = 0%nat /\
  map snd (e_hist ex6_done) =
    [KRet; KClose 1; KShutdown; KClose 0; KTraffic 0; KOpen 1; KOpen 0; KBoot].
Proof. vm_compute. repeat split. Qed.

(* OnBoot returning Shutdown *)
Example C06_ex_onboot :
  map snd (e_hist (fst (run estep (einit ex6_cfg 1) [ (TR, CBoot AShut); (TR, CNone); (TR, CNone) ]))) = [KRet; KBoot].
Proof. vm_compute. reflexivity. Qed.
