// drv-msqueue drives pkg/queue's lock-free queue (C13) under the cooperative
// scheduler pkg/vsched (sync/atomic swapped for pkg/vatomic in a scratch copy
// of lock_free_queue.go through the build overlay) and writes the trace
// consumed by the extracted model (family "msqueue").
//
// op lines (inputs; the schedule is an input):
//
//	start <tid> enq <v>    goroutine tid calls Enqueue(task v); runs to its first atomic op
//	start <tid> deq        goroutine tid calls Dequeue()
//	step <tid>             grant goroutine tid exactly one atomic operation
//	len | isempty          unmanaged Length() / IsEmpty()
//	stress <g> <n> <seed>  unmanaged run with real goroutines (oracle only, no obs)
//
// obs lines (predicted by the model):
//
//	ld  <tid> <loc> <node|nil>              loc ::= head | tail | next <node>
//	cas <tid> <loc> <old> <new> <0|1>
//	add <tid> len <delta> <new value>
//	ret <tid> enq | ret <tid> deq <v|nil> | ret <tid> panic
//	len <v> | isempty <0|1> | stuck <tid>
//
// Nodes are named by allocation order: 0 is the initial dummy, the k-th
// `start … enq` allocates node k.
package main

import (
	"flag"
	"fmt"
	"os"
	"sort"
	"strconv"
	"strings"
	"sync"
	"sync/atomic"
	"unsafe"

	"github.com/panjf2000/gnet/v2/pkg/queue"
	"github.com/panjf2000/gnet/v2/pkg/vsched"

	"verifharness/tr"
)

const fam = "msqueue"

// ---------------------------------------------------------------- history and direct oracle

type hop struct {
	tid       int
	enq       bool
	val       int // enqueued value
	res       int // dequeued value, -1 = empty
	call, ret int
	done      bool
}

// linearizable decides whether the complete history h has a linearization
// as an atomic FIFO queue (Wing & Gong search with memoisation).
func linearizable(h []hop) bool {
	n := len(h)
	if n > 62 {
		return true // too large for the dedicated checker; simple invariants only
	}
	full := uint64(1)<<uint(n) - 1
	seen := map[string]bool{}
	var rec func(mask uint64, q []int) bool
	rec = func(mask uint64, q []int) bool {
		if mask == full {
			return true
		}
		var sb strings.Builder
		sb.WriteString(strconv.FormatUint(mask, 16))
		for _, v := range q {
			sb.WriteByte(',')
			sb.WriteString(strconv.Itoa(v))
		}
		key := sb.String()
		if seen[key] {
			return false
		}
		seen[key] = true
		minRet := int(^uint(0) >> 1)
		for i := 0; i < n; i++ {
			if mask&(1<<uint(i)) == 0 && h[i].ret < minRet {
				minRet = h[i].ret
			}
		}
		for i := 0; i < n; i++ {
			if mask&(1<<uint(i)) != 0 || h[i].call > minRet {
				continue
			}
			o := h[i]
			switch {
			case o.enq:
				nq := append(append([]int{}, q...), o.val)
				if rec(mask|1<<uint(i), nq) {
					return true
				}
			case o.res < 0:
				if len(q) == 0 && rec(mask|1<<uint(i), q) {
					return true
				}
			default:
				if len(q) > 0 && q[0] == o.res && rec(mask|1<<uint(i), q[1:]) {
					return true
				}
			}
		}
		return false
	}
	return rec(0, nil)
}

// checkHistory evaluates C13 directly on a complete call/return history
// (every operation returned); rest = values found by the final drain.
func checkHistory(w *tr.Writer, h []hop, rest []int, drained bool) {
	enq := map[int]int{}
	deq := map[int]int{}
	for _, o := range h {
		if o.enq {
			enq[o.val]++
		} else if o.res >= 0 {
			deq[o.res]++
		}
	}
	for v, c := range deq {
		if enq[v] == 0 {
			w.Fail("Dequeue", "invented-value", fmt.Sprintf("value %d dequeued but never enqueued", v))
		} else if c > enq[v] {
			w.Fail("Dequeue", "dequeued-twice", fmt.Sprintf("value %d dequeued %d times, enqueued %d times", v, c, enq[v]))
		}
	}
	if drained {
		tot := map[int]int{}
		for v, c := range deq {
			tot[v] = c
		}
		for _, v := range rest {
			tot[v]++
			if enq[v] == 0 {
				w.Fail("Dequeue", "invented-value", fmt.Sprintf("value %d drained but never enqueued", v))
			}
		}
		for v, c := range enq {
			if tot[v] < c {
				w.Fail("Dequeue", "lost-value", fmt.Sprintf("value %d enqueued %d times, dequeued %d times after drain", v, c, tot[v]))
			} else if tot[v] > c {
				w.Fail("Dequeue", "dequeued-twice", fmt.Sprintf("value %d enqueued %d times, dequeued %d times after drain", v, c, tot[v]))
			}
		}
	}
	full := append([]hop{}, h...)
	if drained {
		// the drain is a sequence of dequeues after everything else
		t := 0
		for _, o := range h {
			if o.ret > t {
				t = o.ret
			}
		}
		for _, v := range rest {
			full = append(full, hop{tid: -1, res: v, call: t + 1, ret: t + 2, done: true})
			t += 2
		}
		full = append(full, hop{tid: -1, res: -1, call: t + 1, ret: t + 2, done: true})
	}
	// per-producer order: a enqueued before b by the same goroutine, both unique:
	// the dequeue of b must not complete before the dequeue of a starts.
	byProd := map[int][]hop{}
	for _, o := range h {
		if o.enq && enq[o.val] == 1 {
			byProd[o.tid] = append(byProd[o.tid], o)
		}
	}
	dq := map[int]hop{}
	for _, o := range full {
		if !o.enq && o.res >= 0 {
			dq[o.res] = o
		}
	}
	for tid, es := range byProd {
		sort.Slice(es, func(i, j int) bool { return es[i].call < es[j].call })
		for i := 0; i < len(es); i++ {
			for j := i + 1; j < len(es); j++ {
				da, oka := dq[es[i].val]
				db, okb := dq[es[j].val]
				if okb && ((oka && db.ret < da.call) || (!oka && drained)) {
					w.Fail("Dequeue", "producer-order", fmt.Sprintf("producer %d enqueued %d before %d but %d was dequeued first", tid, es[i].val, es[j].val, es[j].val))
				}
			}
		}
	}
	if !linearizable(full) {
		w.Fail("Queue", "not-linearizable", "no linearization of the call/return history as an atomic FIFO queue")
	}
}

// ---------------------------------------------------------------- interpreter

type thr struct {
	busy bool
	enq  bool
	val  int
	res  *queue.Task
	hidx int
	lds  int // loads of head/tail in this call (retry detection)
	node int // name of the node allocated by the current Enqueue
}

type runner struct {
	w       *tr.Writer
	q       queue.AsyncTaskQueue
	s       *vsched.Sched
	headA   *unsafe.Pointer
	tailA   *unsafe.Pointer
	lenA    *int32
	nextOff uintptr
	names   map[unsafe.Pointer]int
	nnodes  int
	pend    map[int]int
	th      map[int]*thr
	hist    []hop
	clock   int
	refLen  int // completed enqueues - successful dequeues (valid at quiescence)
	stress  bool
}

func newRunner(w *tr.Writer) *runner {
	r := &runner{w: w, q: queue.NewLockFreeQueue(), s: vsched.New(), names: map[unsafe.Pointer]int{},
		pend: map[int]int{}, th: map[int]*thr{}}
	var ok bool
	r.headA, r.tailA, r.lenA, r.nextOff, ok = queue.VerifLFQLayout(r.q)
	if !ok {
		panic("not a lock-free queue")
	}
	r.names[*r.headA] = 0
	r.nnodes = 1
	return r
}

func (r *runner) name(tid int, p unsafe.Pointer) string {
	if p == nil {
		return "nil"
	}
	if k, ok := r.names[p]; ok {
		return strconv.Itoa(k)
	}
	if k, ok := r.pend[tid]; ok { // first sight of the node this call allocated
		r.names[p] = k
		delete(r.pend, tid)
		return strconv.Itoa(k)
	}
	return "unk"
}

func (r *runner) loc(a unsafe.Pointer) []string {
	switch a {
	case unsafe.Pointer(r.headA):
		return []string{"head"}
	case unsafe.Pointer(r.tailA):
		return []string{"tail"}
	case unsafe.Pointer(r.lenA):
		return []string{"len"}
	}
	n := unsafe.Add(a, -int(r.nextOff))
	if k, ok := r.names[n]; ok {
		return []string{"next", strconv.Itoa(k)}
	}
	return []string{"unk"}
}

func (r *runner) thread(tid int) *thr {
	t := r.th[tid]
	if t == nil {
		t = &thr{}
		r.th[tid] = t
		r.s.Spawn(tid)
	}
	return t
}

func (r *runner) quiescent() bool {
	for _, t := range r.th {
		if t.busy {
			return false
		}
	}
	return true
}

func (r *runner) finish(tid int, t *thr) {
	t.busy = false
	r.clock++
	h := &r.hist[t.hidx]
	h.ret, h.done = r.clock, true
	if p, _ := r.s.Panicked(tid); p {
		r.w.Obs(tr.L("ret", tr.I(tid), "panic"))
		r.w.Fail("Queue", "panic", "a queue operation panicked")
		h.res = -1
		return
	}
	if t.enq {
		r.refLen++
		r.w.Obs(tr.L("ret", tr.I(tid), "enq"))
		return
	}
	if t.res == nil {
		h.res = -1
		r.w.Obs(tr.L("ret", tr.I(tid), "deq", "nil"))
		r.w.Tag("deq-empty")
		return
	}
	r.refLen--
	h.res = t.res.Param.(int)
	r.w.Obs(tr.L("ret", tr.I(tid), "deq", tr.I(h.res)))
}

// exec executes one op line on the implementation and emits its obs lines.
func (r *runner) exec(op tr.Line) {
	w := r.w
	w.Op(op)
	switch op.Name {
	case "start":
		if len(op.Args) < 2 {
			w.Obs(tr.L("unknown"))
			return
		}
		tid := op.Int(0)
		t := r.thread(tid)
		if t.busy || (op.Args[1] != "enq" && op.Args[1] != "deq") || (op.Args[1] == "enq" && len(op.Args) < 3) {
			w.Obs(tr.L("stuck", tr.I(tid)))
			return
		}
		r.clock++
		t.busy, t.res, t.lds = true, nil, 0
		t.enq = op.Args[1] == "enq"
		var f func()
		if t.enq {
			t.val = op.Int(2)
			task := &queue.Task{Param: t.val}
			r.pend[tid] = r.nnodes
			t.node = r.nnodes
			r.nnodes++
			f = func() { r.q.Enqueue(task) }
		} else {
			f = func() { t.res = r.q.Dequeue() }
		}
		t.hidx = len(r.hist)
		r.hist = append(r.hist, hop{tid: tid, enq: t.enq, val: t.val, call: r.clock})
		if r.s.Start(tid, f) {
			r.finish(tid, t)
		}
	case "step":
		if len(op.Args) < 1 {
			w.Obs(tr.L("unknown"))
			return
		}
		tid := op.Int(0)
		t := r.thread(tid)
		if !t.busy {
			w.Obs(tr.L("stuck", tr.I(tid)))
			return
		}
		ev, done, ok := r.s.Step(tid)
		if !ok || r.s.Hung {
			w.Obs(tr.L("hung", tr.I(tid)))
			w.Fail("Queue", "hung", "managed goroutine did not reach a scheduling point")
			t.busy = false
			return
		}
		r.obsEvent(tid, t, ev)
		if done {
			r.finish(tid, t)
		}
	case "len":
		v := int(r.q.Length())
		w.Obs(tr.L("len", tr.I(v)))
		if r.quiescent() && v != r.refLen {
			w.Fail("Length", "length-quiescent", fmt.Sprintf("no operation in flight: Length()=%d but %d tasks are in the queue", v, r.refLen))
		}
	case "isempty":
		b := r.q.IsEmpty()
		w.Obs(tr.L("isempty", tr.B(b)))
		if r.quiescent() && b != (r.refLen == 0) {
			w.Fail("IsEmpty", "isempty-quiescent", fmt.Sprintf("no operation in flight: IsEmpty()=%v but %d tasks are in the queue", b, r.refLen))
		}
	case "stress":
		if len(op.Args) < 3 {
			w.Obs(tr.L("unknown"))
			return
		}
		r.stress = true
		stress(w, op.Int(0), op.Int(1), uint64(op.Int(2)))
	default:
		w.Obs(tr.L("unknown"))
	}
}

func (r *runner) obsEvent(tid int, t *thr, ev vsched.Event) {
	w := r.w
	loc := r.loc(ev.Addr)
	switch {
	case ev.Op == "ld" && ev.Typ == "ptr":
		// name the location first: it never refers to a node this call allocated
		w.Obs(tr.L("ld", append(append([]string{tr.I(tid)}, loc...), r.name(tid, ev.ValP))...))
		if loc[0] == "head" || (loc[0] == "tail" && t.enq) {
			t.lds++
			if t.lds == 3 {
				w.Tag("retry")
			}
		}
	case ev.Op == "cas" && ev.Typ == "ptr":
		o := r.name(tid, ev.OldP)
		n := r.name(tid, ev.NewP)
		w.Obs(tr.L("cas", append(append([]string{tr.I(tid)}, loc...), o, n, tr.B(ev.Ok))...))
		if !ev.Ok {
			w.Tag("cas-fail-" + loc[0])
		}
		if loc[0] == "tail" && (!t.enq || n != strconv.Itoa(t.node)) {
			w.Tag("help-tail")
		}
	case ev.Op == "add" && ev.Typ == "i32":
		w.Obs(tr.L("add", append(append([]string{tr.I(tid)}, loc...), tr.I64(ev.New), tr.I64(ev.Val))...))
	default:
		w.Obs(tr.L("other", tr.I(tid), ev.Op, ev.Typ))
	}
}

// end finishes a case: free-run whatever is still in flight, drain, run the oracle.
func (r *runner) end() {
	if r.stress {
		r.s.Close()
		r.w.End()
		return
	}
	r.s.Abort()
	for tid, t := range r.th {
		if t.busy {
			t.busy = false
			r.clock++
			h := &r.hist[t.hidx]
			h.ret, h.done = r.clock, true
			if p, _ := r.s.Panicked(tid); p {
				r.w.Fail("Queue", "panic", "a queue operation panicked")
				h.res = -1
			} else if !t.enq {
				h.res = -1
				if t.res != nil {
					h.res = t.res.Param.(int)
				}
			}
		}
	}
	r.s.Close()
	var rest []int
	drained := false
	if p, msg := tr.Guard(func() {
		for i := 0; i < len(r.hist)+2; i++ {
			t := r.q.Dequeue()
			if t == nil {
				drained = true
				break
			}
			rest = append(rest, t.Param.(int))
		}
	}); p {
		r.w.Fail("Queue", "panic", "final drain panicked: "+msg)
		r.w.End()
		return
	}
	if !drained {
		r.w.Fail("Dequeue", "lost-value", "queue still not empty after draining more values than were enqueued")
	}
	if l := r.q.Length(); drained && l != 0 {
		r.w.Fail("Length", "length-quiescent", fmt.Sprintf("drained queue has Length()=%d", l))
	}
	checkHistory(r.w, r.hist, rest, drained)
	r.w.End()
}

// ---------------------------------------------------------------- unmanaged stress

func stress(w *tr.Writer, g, n int, seed uint64) {
	q := queue.NewLockFreeQueue()
	var clk int64
	var panics int32
	hs := make([][]hop, g)
	var wg sync.WaitGroup
	for i := 0; i < g; i++ {
		wg.Add(1)
		go func(i int) {
			defer wg.Done()
			defer func() {
				if r := recover(); r != nil {
					atomic.AddInt32(&panics, 1)
				}
			}()
			rnd := tr.NewRand(seed*131 + uint64(i))
			for k := 0; k < n; k++ {
				o := hop{tid: i, done: true}
				if rnd.Chance(55) {
					o.enq, o.val = true, i*1000000+k
					task := &queue.Task{Param: o.val}
					o.call = int(atomic.AddInt64(&clk, 1))
					q.Enqueue(task)
					o.ret = int(atomic.AddInt64(&clk, 1))
				} else {
					o.call = int(atomic.AddInt64(&clk, 1))
					t := q.Dequeue()
					o.ret = int(atomic.AddInt64(&clk, 1))
					o.res = -1
					if t != nil {
						o.res = t.Param.(int)
					}
				}
				hs[i] = append(hs[i], o)
			}
		}(i)
	}
	wg.Wait()
	if panics > 0 {
		w.Fail("Queue", "panic", "a queue operation panicked in an unmanaged stress run")
		return
	}
	var h []hop
	for _, x := range hs {
		h = append(h, x...)
	}
	ref := 0
	for _, o := range h {
		if o.enq {
			ref++
		} else if o.res >= 0 {
			ref--
		}
	}
	if l := int(q.Length()); l != ref {
		w.Fail("Length", "length-quiescent", fmt.Sprintf("stress: Length()=%d but %d tasks are in the queue", l, ref))
	}
	if q.IsEmpty() != (ref == 0) {
		w.Fail("IsEmpty", "isempty-quiescent", "stress: IsEmpty disagrees with the number of tasks")
	}
	var rest []int
	drained := false
	if p, msg := tr.Guard(func() {
		for i := 0; i < len(h)+2; i++ {
			t := q.Dequeue()
			if t == nil {
				drained = true
				break
			}
			rest = append(rest, t.Param.(int))
		}
	}); p {
		w.Fail("Queue", "panic", "final drain panicked: "+msg)
		return
	}
	checkHistory(w, h, rest, drained)
	if g*n > 62 {
		w.Tag("stress-large")
	} else {
		w.Tag("stress-lin")
	}
}

// ---------------------------------------------------------------- generators

type opSpec struct {
	enq bool
	val int
}

type gen struct {
	w   *tr.Writer
	rnd *tr.Rand
	id  int
}

func (g *gen) newCase(kind string, cfg ...string) *runner {
	g.id++
	g.w.Case(fmt.Sprintf("%s%d", kind, g.id), fam, cfg...)
	g.w.Hist("kind=" + kind)
	return newRunner(g.w)
}

func startLine(tid int, o opSpec) tr.Line {
	if o.enq {
		return tr.L("start", tr.I(tid), "enq", tr.I(o.val))
	}
	return tr.L("start", tr.I(tid), "deq")
}

// runToEnd runs the call in flight on tid to completion.
func runToEnd(r *runner, tid int) {
	for i := 0; r.th[tid].busy && i < 1000; i++ {
		r.exec(tr.L("step", tr.I(tid)))
	}
}

func (g *gen) scripts(nt int, maxOps int) [][]opSpec {
	sc := make([][]opSpec, nt)
	v := 1
	shape := g.rnd.Intn(4)
	for t := 0; t < nt; t++ {
		n := g.rnd.Range(1, maxOps)
		for k := 0; k < n; k++ {
			var enq bool
			switch shape {
			case 0:
				enq = g.rnd.Chance(50)
			case 1: // producers / consumers
				enq = t%2 == 0
			case 2:
				enq = g.rnd.Chance(75)
			default:
				enq = g.rnd.Chance(30)
			}
			sc[t] = append(sc[t], opSpec{enq: enq, val: v})
			v++
		}
	}
	return sc
}

func (g *gen) prefill(r *runner, n int) {
	for k := 0; k < n; k++ {
		r.exec(tr.L("start", "0", "enq", tr.I(900+k)))
		runToEnd(r, 0)
	}
}

func (g *gen) finale(r *runner) {
	r.exec(tr.L("len"))
	r.exec(tr.L("isempty"))
	// managed drain on goroutine 0 (so the model predicts it too)
	for i := 0; i < 64; i++ {
		r.exec(tr.L("start", "0", "deq"))
		runToEnd(r, 0)
		h := r.hist[len(r.hist)-1]
		if h.res < 0 {
			break
		}
	}
	r.exec(tr.L("len"))
	r.exec(tr.L("isempty"))
	r.end()
}

func enabled(r *runner, sc [][]opSpec, pos []int) []int {
	var en []int
	for t := range sc {
		if (r.th[t] != nil && r.th[t].busy) || pos[t] < len(sc[t]) {
			en = append(en, t)
		}
	}
	return en
}

// advance: tid starts its next scripted call if idle, otherwise takes one step.
func advance(r *runner, sc [][]opSpec, pos []int, t int, fused bool) {
	if r.th[t] == nil || !r.th[t].busy {
		r.exec(startLine(t, sc[t][pos[t]]))
		pos[t]++
		if !fused || !r.th[t].busy {
			return
		}
	}
	r.exec(tr.L("step", tr.I(t)))
}

func (g *gen) random() {
	nt := g.rnd.Range(2, 5)
	r := g.newCase("rnd", "threads="+tr.I(nt))
	g.w.Hist("threads=" + tr.I(nt))
	sc := g.scripts(nt, 4)
	g.prefill(r, g.rnd.Pick([]int{0, 0, 1, 2, 3}))
	pos := make([]int, nt)
	sticky := g.rnd.Pick([]int{0, 50, 80})
	last := -1
	for i := 0; i < 4000; i++ {
		en := enabled(r, sc, pos)
		if len(en) == 0 {
			break
		}
		t := en[g.rnd.Intn(len(en))]
		if last >= 0 && g.rnd.Chance(sticky) {
			for _, e := range en {
				if e == last {
					t = last
				}
			}
		}
		last = t
		advance(r, sc, pos, t, false)
		if g.rnd.Chance(3) {
			if g.rnd.Chance(50) {
				r.exec(tr.L("len"))
			} else {
				r.exec(tr.L("isempty"))
			}
		}
	}
	g.finale(r)
}

// pct: PCT-style priority schedule with d-1 priority change points.
func (g *gen) pct() {
	nt := g.rnd.Range(2, 5)
	d := g.rnd.Range(1, 4)
	r := g.newCase("pct", "threads="+tr.I(nt), "depth="+tr.I(d))
	g.w.Hist("threads=" + tr.I(nt))
	sc := g.scripts(nt, 3)
	g.prefill(r, g.rnd.Pick([]int{0, 1, 2}))
	pos := make([]int, nt)
	prio := make([]int, nt)
	perm := make([]int, nt)
	for i := range perm {
		perm[i] = i
	}
	for i := nt - 1; i > 0; i-- {
		j := g.rnd.Intn(i + 1)
		perm[i], perm[j] = perm[j], perm[i]
	}
	for i, t := range perm {
		prio[t] = d + i
	}
	est := 0
	for _, s := range sc {
		est += 7 * len(s)
	}
	change := map[int]int{}
	for k := 1; k < d; k++ {
		change[g.rnd.Intn(est+1)] = d - k
	}
	for i := 0; i < 4000; i++ {
		en := enabled(r, sc, pos)
		if len(en) == 0 {
			break
		}
		best := en[0]
		for _, t := range en {
			if prio[t] > prio[best] {
				best = t
			}
		}
		if np, ok := change[i]; ok {
			prio[best] = np
			best = en[0]
			for _, t := range en {
				if prio[t] > prio[best] {
					best = t
				}
			}
		}
		advance(r, sc, pos, best, false)
	}
	g.finale(r)
}

// starve: one dequeuer is overtaken again and again.  Thread 1 starts a Dequeue on a well-filled queue and is
// let run `s` atomic steps at a time; between its slices thread 2 (and in some cases thread 3 too) completes a
// whole Dequeue, so thread 1's view of the head is stale every time it gets to its CAS (for the slice length
// that matches one iteration of its loop) or to its re-check (for the others).  The queue never becomes empty:
// thread 1 must go on retrying and finally return a task -- "empty" is reported only if the queue was empty at
// some instant during the call, however often the caller loses the race.
func (g *gen) starve() {
	s := g.rnd.Range(2, 6)
	rounds := g.rnd.Range(10, 14)
	three := g.rnd.Chance(30)
	r := g.newCase("starve", "slice="+tr.I(s), "rounds="+tr.I(rounds))
	g.prefill(r, 2*rounds+6)
	r.exec(tr.L("start", "1", "deq"))
	for k := 0; k < rounds && r.th[1].busy; k++ {
		for i := 0; i < s && r.th[1].busy; i++ {
			r.exec(tr.L("step", "1"))
		}
		if !r.th[1].busy {
			break
		}
		r.exec(tr.L("start", "2", "deq"))
		runToEnd(r, 2)
		if three {
			r.exec(tr.L("start", "3", "deq"))
			runToEnd(r, 3)
		}
		if r.th[1].busy {
			r.exec(tr.L("step", "1"))
		}
	}
	runToEnd(r, 1)
	g.finale(r)
}

// bounded: every schedule of the given scripts with at most `bound` preemptions.
func (g *gen) bounded(sc [][]opSpec, pre, bound, limit int) int {
	stack := [][]int{{}}
	count := 0
	for len(stack) > 0 && count < limit {
		prefix := stack[len(stack)-1]
		stack = stack[:len(stack)-1]
		r := g.newCase("pb", "bound="+tr.I(bound))
		count++
		g.prefill(r, pre)
		pos := make([]int, len(sc))
		var chosen []int
		var ens [][]int
		var usedAt []int // preemptions used before position k
		used, cur := 0, -1
		for k := 0; k < 4000; k++ {
			en := enabled(r, sc, pos)
			if len(en) == 0 {
				break
			}
			curEn := false
			for _, e := range en {
				if e == cur {
					curEn = true
				}
			}
			var t int
			if k < len(prefix) {
				t = prefix[k]
			} else if curEn {
				t = cur
			} else {
				t = en[0]
			}
			ens = append(ens, en)
			usedAt = append(usedAt, used)
			if curEn && t != cur {
				used++
			}
			chosen = append(chosen, t)
			// alternatives branch only beyond the prefix
			if k >= len(prefix) {
				for _, x := range en {
					if x == t {
						continue
					}
					cost := usedAt[k]
					if curEn && x != cur {
						cost++
					}
					if cost <= bound {
						np := append(append([]int{}, chosen[:k]...), x)
						stack = append(stack, np)
					}
				}
			}
			cur = t
			advance(r, sc, pos, t, true)
		}
		g.finale(r)
	}
	return count
}

func (g *gen) stressCase(gor, n int) {
	r := g.newCase("stress")
	r.exec(tr.L("stress", tr.I(gor), tr.I(n), tr.U64(g.rnd.U64()%1000000)))
	r.end()
}

// ---------------------------------------------------------------- main

func main() {
	seed := flag.Uint64("seed", 1, "")
	tier := flag.String("tier", "quick", "")
	out := flag.String("out", "", "")
	stats := flag.String("stats", "", "")
	replay := flag.String("replay", "", "")
	flag.Parse()
	if *out == "" {
		fmt.Fprintln(os.Stderr, "drv-msqueue: -out required")
		os.Exit(2)
	}
	w := tr.NewWriter(*out)
	if *replay != "" {
		for _, c := range tr.ReadCases(*replay) {
			w.Case(c.ID, fam, tr.CfgList(c.Cfg)...)
			r := newRunner(w)
			for _, op := range c.Ops {
				if p, msg := tr.Guard(func() { r.exec(op) }); p {
					w.Obs(tr.L("driver-panic"))
					w.Fail("driver", "panic", msg)
					break
				}
			}
			r.end()
		}
		w.Close(*stats)
		return
	}
	g := &gen{w: w, rnd: tr.NewRand(*seed)}
	nRnd, nPct, nStarve, nStressLin, nStressBig := 240, 110, 24, 30, 4
	if *tier == "thorough" {
		nRnd, nPct, nStarve, nStressLin, nStressBig = 12000, 8000, 600, 600, 40
	}
	for i := 0; i < nRnd; i++ {
		g.random()
	}
	for i := 0; i < nPct; i++ {
		g.pct()
	}
	for i := 0; i < nStarve; i++ {
		g.starve()
	}
	combos := [][2]string{{"ed", "de"}}
	bound, limit := 1, 40
	if *tier == "thorough" {
		combos = nil
		for _, a := range []string{"ee", "ed", "de", "dd"} {
			for _, b := range []string{"ee", "ed", "de", "dd"} {
				combos = append(combos, [2]string{a, b})
			}
		}
		bound, limit = 2, 1<<30
	}
	for _, c := range combos {
		for _, pre := range []int{0, 1} {
			var sc [][]opSpec
			v := 1
			for _, s := range c {
				var ops []opSpec
				for _, ch := range s {
					ops = append(ops, opSpec{enq: ch == 'e', val: v})
					v++
				}
				sc = append(sc, ops)
			}
			n := g.bounded(sc, pre, bound, limit)
			w.Hist(fmt.Sprintf("exhaustive:%s|%s:pre%d=%d", c[0], c[1], pre, n))
			if *tier != "thorough" {
				break
			}
		}
	}
	for i := 0; i < nStressLin; i++ {
		g.stressCase(g.rnd.Range(2, 4), g.rnd.Range(3, 8))
	}
	for i := 0; i < nStressBig; i++ {
		g.stressCase(g.rnd.Range(2, 8), 3000)
	}
	w.Close(*stats)
}
