// drv-pool drives pkg/pool/byteslice and pkg/pool/ringbuffer (property C12)
// and writes the trace consumed by the extracted model (family "pool").
//
//   - pool in isolation: histories of Get/Put/GC from 1..8 goroutines over a
//     private Pool value or the built-in one, all size classes and slice shapes;
//     the driver tells, by address, which donated pointer came back (an input of
//     the model), the model predicts len/cap and the ledger verdicts, and the
//     driver's own ledger (address ranges, canary bytes) is the direct oracle;
//   - ring-buffer pool in isolation, same scheme on buffer identities;
//   - storms: unsynchronised concurrent Get/Put, oracle only;
//   - engine phases: the real call sites (ring grow, linked-list nodes, elastic
//     buffers, a gnet echo server with tcp/unix/udp and IPv6 link-local zone
//     connections) followed by a probe of the built-in pools.
package main

import (
	"bufio"
	"bytes"
	"context"
	"encoding/json"
	"flag"
	"fmt"
	"os"
	"os/exec"
	"path/filepath"
	"strconv"
	"strings"
	"time"

	"verifharness/tr"
)

var w *tr.Writer

func memAvailableMiB() int {
	b, err := os.ReadFile("/proc/meminfo")
	if err != nil {
		return 0
	}
	for _, l := range strings.Split(string(b), "\n") {
		if strings.HasPrefix(l, "MemAvailable:") {
			f := strings.Fields(l)
			if len(f) >= 2 {
				n, _ := strconv.Atoi(f[1])
				return n / 1024
			}
		}
	}
	return 0
}

var hugeBudget int

var inproc bool

// Storm and engine cases write through whatever the pools hand out; if the
// pools hand out memory they must not (the very thing C12 excludes) that can
// corrupt the Go heap and kill the process.  Such cases therefore run in a
// child process; a crash of the child is itself reported as an oracle failure.
func isolated(c tr.Case) bool {
	if inproc {
		return false
	}
	for _, op := range c.Ops {
		if op.Name == "storm" || op.Name == "engine" {
			return true
		}
	}
	return false
}

func runIsolated(c tr.Case) {
	dir, err := os.MkdirTemp("", "drv-pool-child")
	if err != nil {
		panic(err)
	}
	defer os.RemoveAll(dir)
	var b strings.Builder
	cfg := tr.CfgList(c.Cfg)
	b.WriteString(strings.TrimSpace("case "+c.ID+" pool "+strings.Join(cfg, " ")) + "\n")
	for _, op := range c.Ops {
		b.WriteString("op " + op.String() + "\n")
	}
	b.WriteString("end " + c.ID + "\n")
	rep, out, st := filepath.Join(dir, "in.trace"), filepath.Join(dir, "out.trace"), filepath.Join(dir, "stats.json")
	_ = os.WriteFile(rep, []byte(b.String()), 0o644)
	ctx, cancel := context.WithTimeout(context.Background(), 120*time.Second)
	defer cancel()
	cmd := exec.CommandContext(ctx, os.Args[0], "-inproc", "-replay", rep, "-out", out, "-stats", st)
	var stderr bytes.Buffer
	cmd.Stderr = &stderr
	runErr := cmd.Run()
	var lines []string
	complete := false
	if f, err := os.Open(out); err == nil {
		sc := bufio.NewScanner(f)
		sc.Buffer(make([]byte, 1<<20), 1<<26)
		for sc.Scan() {
			lines = append(lines, sc.Text())
			if strings.HasPrefix(sc.Text(), "end") {
				complete = true
			}
		}
		f.Close()
	}
	w.Case(c.ID, "pool", cfg...)
	if runErr == nil && complete {
		for _, l := range lines {
			fs := strings.Fields(l)
			switch {
			case strings.HasPrefix(l, "op ") && len(fs) > 1:
				w.Op(tr.Line{Name: fs[1], Args: fs[2:]})
			case strings.HasPrefix(l, "obs ") && len(fs) > 1:
				w.Obs(tr.Line{Name: fs[1], Args: fs[2:]})
			case strings.HasPrefix(l, "fail "):
				body, detail, _ := strings.Cut(l[5:], " # ")
				site, sig, _ := strings.Cut(body, " ")
				w.Fail(site, sig, detail)
			}
		}
		var stj struct {
			Tags map[string]int `json:"tags"`
			Hist map[string]int `json:"hist"`
		}
		if raw, err := os.ReadFile(st); err == nil && json.Unmarshal(raw, &stj) == nil {
			for k := range stj.Tags {
				w.Tag(k)
			}
			for k, v := range stj.Hist {
				for i := 0; i < v; i++ {
					w.Hist(k)
				}
			}
		}
		w.End()
		return
	}
	// the child died: report it
	what := "?"
	for _, op := range c.Ops {
		w.Op(op)
		switch op.Name {
		case "storm":
			w.Obs(tr.L("storm"))
			what = "storm"
		case "engine":
			w.Obs(tr.L("engine", op.Args[0]))
			what = op.Args[0]
		}
	}
	msg := stderr.String()
	first := strings.SplitN(strings.TrimSpace(msg), "\n", 2)[0]
	if len(first) > 200 {
		first = first[:200]
	}
	w.Fail("pool-crash", "phase="+what, fmt.Sprintf("the process running this case died (%v): %s", runErr, first))
	w.Tag("crash")
	w.End()
}

func runCase(c tr.Case) {
	if isolated(c) {
		runIsolated(c)
		return
	}
	cfg := tr.CfgList(c.Cfg)
	w.Case(c.ID, "pool", cfg...)
	var is *iso
	var rs *rbs
	for _, op := range c.Ops {
		switch op.Name {
		case "mk", "sub", "get", "put", "wr", "gc":
			if is == nil {
				pk := c.Cfg["pool"]
				if pk == "" {
					pk = "own"
				}
				is = newISO(pk, tr.CfgInt(c.Cfg, "g", 1), &hugeBudget)
				if len(is.workers) > 1 {
					w.Tag("multi-goroutine")
				}
			}
			if p, msg := tr.Guard(func() { is.exec(op) }); p {
				fmt.Fprintln(os.Stderr, "drv-pool: interpreter panic:", msg)
			}
		case "rbget", "rbmk", "rbuse", "rbput", "rbgc":
			if rs == nil {
				rs = newRBS(c.Cfg["cal"] == "1")
			}
			rs.exec(op)
		case "storm":
			seed, _ := strconv.ParseUint(op.Args[2], 10, 64)
			storm(op.Int(0), op.Int(1), seed)
		case "engine":
			var seed uint64 = 1
			if len(op.Args) > 1 {
				seed, _ = strconv.ParseUint(op.Args[1], 10, 64)
			}
			engine(op.Args[0], seed)
		}
	}
	if is != nil {
		is.finish()
	}
	w.End()
}

// ---------------------------------------------------------------- generator

var boundary = []int{0, -1, 1, 2, 3, 4, 5, 7, 8, 9, 15, 16, 17, 31, 32, 33, 63, 64, 65, 100, 127, 128, 129, 255, 256, 257,
	511, 512, 513, 1000, 1023, 1024, 1025, 4095, 4096, 4097, 65535, 65536, 65537}

func genSize(rnd *tr.Rand, maxShift int) int {
	switch rnd.Intn(10) {
	case 0, 1, 2:
		return rnd.Pick(boundary)
	case 3, 4, 5:
		k := rnd.Intn(maxShift + 1)
		return (1 << uint(k)) + rnd.Intn(3) - 1
	case 6:
		return 1 + rnd.Intn(1<<uint(maxShift))
	default:
		return 1 + rnd.Intn(3000)
	}
}

// genISO builds one case by interpreting as it goes (the next op may depend on
// what the pool returned so far).
func genISO(id string, rnd *tr.Rand, tier string, undisc bool, huge bool) {
	g := rnd.Pick([]int{1, 1, 2, 3, 4, 8})
	pk := "own"
	if rnd.Chance(30) {
		pk = "builtin"
	}
	w.Case(id, "pool", fmt.Sprintf("g=%d", g), "pool="+pk)
	s := newISO(pk, g, &hugeBudget)
	if g > 1 {
		w.Tag("multi-goroutine")
	}
	maxShift := 16
	if tier == "thorough" {
		maxShift = 22
	}
	nops := 20 + rnd.Intn(100)
	type hinfo struct{ client int }
	owner := map[int]int{} // handle -> client that created it
	do := func(l tr.Line) { s.exec(l) }
	for i := 0; i < nops; i++ {
		c := rnd.Intn(g)
		r := rnd.Intn(100)
		switch {
		case r < 35: // get; half of the time aim at a class that has a donation
			size := genSize(rnd, maxShift)
			if len(s.mirror) > 0 && rnd.Chance(55) {
				d := s.mirror[rnd.Intn(len(s.mirror))]
				k := 0
				for (2 << uint(k)) <= d.dcap {
					k++
				}
				size = (1 << uint(k)) - rnd.Intn((1<<uint(k))/2+1)
				if size < 1 {
					size = 1
				}
			}
			if huge && rnd.Chance(8) {
				size = rnd.Pick([]int{maxInt32, maxInt32 + 1, maxInt32 + 2, maxInt32 - 1, 1<<30 + 1})
			}
			do(tr.L("get", tr.I(c), tr.I(size), "-1"))
			owner[len(s.handles)-1] = c
		case r < 45: // foreign slice
			cp := genSize(rnd, 13)
			if cp < 0 {
				cp = 0
			}
			ln := rnd.Intn(cp + 1)
			if huge && rnd.Chance(5) {
				cp, ln = maxInt32+1+rnd.Intn(2), 10 // Put ignores it
			}
			do(tr.L("mk", tr.I(c), tr.I(ln), tr.I(cp)))
			owner[len(s.handles)-1] = c
			w.Tag("foreign")
		case r < 80 && len(s.handles) > 0: // put, possibly of a re-slice
			h := rnd.Intn(len(s.handles))
			b := s.handles[h]
			pc, ok := owner[h]
			if !ok {
				pc = c
			}
			if cap(b) > 1 && rnd.Chance(45) {
				lo, hi, mx := 0, len(b), -1
				switch rnd.Intn(3) {
				case 0: // tail b[k:]
					lo = 1 + rnd.Intn(cap(b)-1)
					if lo > len(b) {
						hi = lo
					}
					hi = lo + rnd.Intn(cap(b)-lo+1)
					w.Tag("tail")
					w.Hist("shape-tail")
				case 1: // shrink the capacity b[:n:m]
					mx = 1 + rnd.Intn(cap(b))
					hi = rnd.Intn(mx + 1)
					w.Tag("cap-cut")
					w.Hist("shape-capcut")
				case 2: // middle b[k:n:m]
					lo = rnd.Intn(cap(b))
					mx = lo + 1 + rnd.Intn(cap(b)-lo)
					hi = lo + rnd.Intn(mx-lo+1)
					w.Hist("shape-middle")
				}
				do(tr.L("sub", tr.I(pc), tr.I(h), tr.I(lo), tr.I(hi), tr.I(mx)))
				h = len(s.handles) - 1
				owner[h] = pc
				b = s.handles[h]
			}
			owned := cap(b) == 0 || cap(b) > maxInt32 || s.owns(pc, addr(b), addr(b)+uintptr(cap(b))) >= 0
			if owned || undisc && rnd.Chance(30) {
				if !owned && rnd.Chance(50) {
					pc = (pc + 1) % (g + 1) // a client that never owned it
				}
				do(tr.L("put", tr.I(pc), tr.I(h)))
			}
		case r < 90 && len(s.handles) > 0: // touch
			h := rnd.Intn(len(s.handles))
			b := s.handles[h]
			pc, ok := owner[h]
			if !ok || len(b) == 0 {
				continue
			}
			owned := s.owns(pc, addr(b), addr(b)+uintptr(len(b))) >= 0
			if owned || undisc && rnd.Chance(30) {
				do(tr.L("wr", tr.I(pc), tr.I(h)))
			}
		case r < 93:
			do(tr.L("gc", tr.I(1+rnd.Intn(2))))
		default:
			do(tr.L("get", tr.I(c), tr.I(rnd.Pick([]int{0, -1, -5})), "-1"))
		}
	}
	s.finish()
	w.End()
}

func genRB(id string, rnd *tr.Rand, undisc bool) {
	cal := rnd.Chance(25)
	cfg := "cal=0"
	if cal {
		cfg = "cal=1"
	}
	w.Case(id, "pool", cfg)
	s := newRBS(cal)
	g := 1 + rnd.Intn(4)
	nops := 10 + rnd.Intn(60)
	for i := 0; i < nops; i++ {
		c := rnd.Intn(g)
		r := rnd.Intn(100)
		switch {
		case r < 30:
			s.exec(tr.L("rbget", tr.I(c), "-1"))
		case r < 35:
			s.exec(tr.L("rbmk", tr.I(c)))
		case r < 60 && len(s.held) > 0:
			h := s.held[rnd.Intn(len(s.held))]
			n := rnd.Pick([]int{0, 1, 10, 63, 64, 65, 700, 5000})
			s.exec(tr.L("rbuse", tr.I(h.client), tr.I(h.id), tr.I(n)))
		case r < 90 && len(s.held) > 0:
			h := s.held[rnd.Intn(len(s.held))]
			s.exec(tr.L("rbput", tr.I(h.client), tr.I(h.id), "1"))
			if undisc && rnd.Chance(30) {
				if rnd.Chance(50) {
					s.exec(tr.L("rbput", tr.I(h.client), tr.I(h.id), "1")) // double Put
				} else {
					s.exec(tr.L("rbuse", tr.I(h.client), tr.I(h.id), tr.I(9))) // use after Put
				}
			}
		case r < 95:
			s.exec(tr.L("rbgc", tr.I(1+rnd.Intn(2))))
		}
	}
	w.End()
}

func main() {
	seed := flag.Uint64("seed", 1, "")
	tier := flag.String("tier", "quick", "")
	out := flag.String("out", "trace.txt", "")
	stats := flag.String("stats", "", "")
	rep := flag.String("replay", "", "")
	flag.BoolVar(&inproc, "inproc", false, "run storm/engine cases in this process (used for the child)")
	flag.Parse()
	w = tr.NewWriter(*out)
	defer w.Close(*stats)
	hugeBudget = 0
	if memAvailableMiB() > 16*1024 {
		hugeBudget = 3
		if *tier == "thorough" || *rep != "" {
			hugeBudget = 8
		}
	}
	if *rep != "" {
		for _, c := range tr.ReadCases(*rep) {
			runCase(c)
		}
		return
	}
	rnd := tr.NewRand(*seed)
	mult := 1
	if *tier == "thorough" {
		mult = 12
	}
	for i := 0; i < 400*mult; i++ {
		genISO(fmt.Sprintf("iso%d", i), tr.NewRand(rnd.U64()), *tier, i%8 == 7, i%100 == 50)
	}
	for i := 0; i < 150*mult; i++ {
		genRB(fmt.Sprintf("rb%d", i), tr.NewRand(rnd.U64()), i%6 == 5)
	}
	for i := 0; i < 6*mult; i++ {
		runCase(tr.Case{ID: fmt.Sprintf("storm%d", i), Family: "pool", Cfg: map[string]string{},
			Ops: []tr.Line{tr.L("storm", tr.I(2+rnd.Intn(7)), "4000", tr.U64(rnd.U64()%1000000))}})
	}
	for round := 0; round < 2*mult; round++ {
		for _, ph := range enginePhases {
			runCase(tr.Case{ID: fmt.Sprintf("eng-%s-%d", ph, round), Family: "pool", Cfg: map[string]string{},
				Ops: []tr.Line{tr.L("engine", ph, tr.U64(rnd.U64()%1000000))}})
		}
	}
}
