CHECK = dict(
    engine="loop", design_ref="4 / the connection and event-loop model (C07)",
    text="""Coq theorem fd_ok_but_stale_del over every input stream (ledger of owned descriptors; every loop system call names an owned descriptor; close removes it), refutation witness for the stale-event epoll_ctl(DEL); conn.processIO regenerated from the source and proved equal to the model's dispatch (genloop); plus replay of real traces, a whole-process descriptor ledger over all threads and a leak check when Run returns.""",
    note="Proof is about the hand-written model coq/Model/Loop.v (kernel, handler and other goroutines are universally quantified inputs); "
         "the tie to /repo is the per-run trace correspondence through the vunix shim. Kernel stream semantics assumed (monitors in the model state the contract). Runs cover the default, gc_opt and poll_opt builds, server and client side, 1-4 loops (loop 0 modelled, the others judged by the direct oracles).",
    technique="Coq invariant proofs over a big-step interpreter of the event loop + executable trace checkers + differential replay of real engine runs",
)
ENGINE = dict(name="loop", path="coq/Model/Loop.v", serves_properties=["C07"],
              kind_free_text="Gallina model of one event loop (connection_unix/eventloop_unix/processIO/accept/task queues) + Spec/LoopSpec.v checkers + drv-loop + vunix shim")
