//go:build verif && linux && !poll_opt

//verif:target pkg/netpoll/export_verif_wakeup_efd_default.go

package netpoll

// VerifEfd returns the poller's eventfd (default variant: the field efd).
func VerifEfd(p *Poller) int { return p.efd }
