(* The life-cycle invariant of the engine model: relations between the program
   counters of the threads and the flags (cancel, inShutdown, started). *)
From GV Require Import Lib.Trace Lib.Interleave Model.Engine Proofs.EngineBase.
From Coq Require Import Lia List Bool Arith.
Import ListNotations.
Open Scope list_scope.

Definition exited (l : loop) : Prop := l_pc l = LExited.

Definition quiet_pc (l : loop) : Prop :=
  (l_pc l = LIdle \/ l_pc l = LTurnOff \/ l_pc l = LExited) -> l_conns l = [].

(* the loop is on its way out, or will be as soon as it runs its queue *)
Definition gone (l : loop) : Prop :=
  match l_pc l with
  | LClosing | LTurnOff | LExited => True
  | LPoll => has_shut (l_q l) = true
  | LIdle => False
  end.

Definition rb_after_wait (r : rpc) (st : bool) : bool :=
  match r with RClosePollers | RStoreInsd | RReturn => true | RReturned => st | _ => false end.

Definition rb_cancelled (r : rpc) (st : bool) : bool :=
  match r with RNotify _ | RWait | RCancelled => true | _ => rb_after_wait r st end.

Definition rb_unstarted_ok (r : rpc) : bool := match r with R0 | RBooted _ | RReturned => true | _ => false end.
Definition rb_started_ok (r : rpc) : bool := match r with R0 | RBooted _ => false | _ => true end.
Definition rb_insd_ok (r : rpc) : bool := match r with RReturn | RReturned => true | _ => false end.

Record Inv_pc (s : estate) : Prop := mkInvPc {
  ip_quiet : Forall quiet_pc (e_loops s);
  ip_ing_conns : l_conns (e_ing s) = [];
  ip_unstarted : e_started s = false ->
     Forall (fun l => l_pc l = LIdle) (e_loops s) /\ l_pc (e_ing s) = LIdle /\ e_t s = TIdle /\
     e_insd s = false /\ rb_unstarted_ok (e_r s) = true;
  ip_started : e_started s = true ->
     Forall (fun l => l_pc l <> LIdle) (e_loops s) /\
     (c_reactor (e_cfg s) = true -> l_pc (e_ing s) <> LIdle) /\
     (c_ticker (e_cfg s) = true -> e_t s <> TIdle) /\
     rb_started_ok (e_r s) = true;
  ip_noreactor : c_reactor (e_cfg s) = false -> l_pc (e_ing s) = LIdle;
  ip_noticker : c_ticker (e_cfg s) = false -> e_t s = TIdle;
  ip_cancel : rb_cancelled (e_r s) (e_started s) = true -> e_cancel s = true;
  ip_notify : forall k, e_r s = RNotify k ->
     (k <= List.length (e_loops s))%nat /\
     forall i l, (i < k)%nat -> nth_error (e_loops s) i = Some l -> gone l;
  ip_wait : e_r s = RWait -> Forall gone (e_loops s) /\ (c_reactor (e_cfg s) = true -> gone (e_ing s));
  ip_after : rb_after_wait (e_r s) (e_started s) = true ->
     Forall exited (e_loops s) /\ (l_pc (e_ing s) = LIdle \/ l_pc (e_ing s) = LExited) /\ e_t s <> TRun;
  ip_insd : e_insd s = true -> e_started s = true /\ rb_insd_ok (e_r s) = true;
  ip_users : forall g e p, nth_error (e_users s) g = Some (UStopPoll e p) -> e_cancel s = true;
}.

Lemma Inv_pc_push : forall evs s, Inv_pc s -> Inv_pc (push evs s).
Proof. intros evs s [H1 H2 H3 H4 H5 H6 H7 H8 H9 H10 H11 H12]. constructor; assumption. Qed.

Lemma Inv_pc_init : forall cfg nu, Inv_pc (einit cfg nu).
Proof.
  intros cfg nu. constructor; cbn; try (intros; discriminate); auto.
  - apply Forall_forall. intros l Hl. apply repeat_spec in Hl. subst. intros _. reflexivity.
  - intros _. splits; auto. apply Forall_forall. intros l Hl. apply repeat_spec in Hl. subst. reflexivity.
  - intros g e p H. apply nth_error_In in H. apply repeat_spec in H. discriminate.
Qed.

Ltac inv_pc_destruct H :=
  destruct H as [Hquiet Hingc Hunst Hst Hnoreact Hnotick Hcancel Hnotify Hwait Hafter Hinsd Husers].

(* cheap forward chaining on computed premises *)
Ltac fwd :=
  repeat match goal with
  | H : true = true -> _ |- _ => specialize (H eq_refl)
  | H : false = false -> _ |- _ => specialize (H eq_refl)
  | H : false = true -> _ |- _ => clear H
  | H : true = false -> _ |- _ => clear H
  | H : _ /\ _ |- _ => destruct H
  | H : false = true |- _ => discriminate H
  | H : true = false |- _ => discriminate H
  | H1 : ?a = ?b, H2 : ?a = ?b -> _ |- _ => specialize (H2 H1)
  end.
