import os, sys
sys.path.insert(0, os.path.dirname(os.path.dirname(os.path.abspath(__file__))))
from loopfam import drv, RULE, TRUSTED, ASSUME, GENS

PROP = dict(gens=GENS, drivers=[drv("udp"), drv("udp", n=40, tags="verif poll_opt"), drv("client", n=60)], sites=['^udp-', '^engine-start$', '^fd-leak$'], rule=RULE, trusted=TRUSTED, assumptions=ASSUME)
