// drv-llist drives pkg/buffer/linkedlist.Buffer (C11) with operation
// sequences and writes the trace consumed by the extracted model (family
// "llist").  It is an interpreter of `op` lines (used by the generator and by
// -replay) plus a direct oracle: a reference FIFO of byte segments kept by the
// driver itself.
package main

import (
	"bytes"
	"errors"
	"flag"
	"fmt"
	"io"
	"math"
	"strconv"

	"github.com/panjf2000/gnet/v2/pkg/buffer/linkedlist"

	"verifharness/tr"
)

var w *tr.Writer

var errScript = errors.New("scripted error")

func errSym(e error) string {
	switch e {
	case nil:
		return "nil"
	case io.EOF:
		return "eof"
	case io.ErrShortBuffer:
		return "shortbuf"
	case io.ErrShortWrite:
		return "shortwrite"
	case errScript:
		return "err"
	}
	return "other"
}

func symErr(s string) error {
	switch s {
	case "nil":
		return nil
	case "eof":
		return io.EOF
	case "shortbuf":
		return io.ErrShortBuffer
	case "shortwrite":
		return io.ErrShortWrite
	}
	return errScript
}

// ---------------------------------------------------------------- scripts

type resp struct {
	k   int
	err error
}

func parseScript(args []string) []resp {
	var out []resp
	for i := 0; i+1 < len(args); i += 2 {
		k, e := strconv.Atoi(args[i])
		if e != nil {
			break
		}
		out = append(out, resp{k, symErr(args[i+1])})
	}
	return out
}

func scriptArgs(s []resp) []string {
	var out []string
	for _, r := range s {
		out = append(out, tr.I(r.k), errSym(r.err))
	}
	return out
}

// scriptReader: Read(p) takes the next response (k, e) and returns
// (min(k, len p, remaining source), e); k < 0 returns the negative count;
// an exhausted script answers (0, EOF).
type scriptReader struct {
	src    []byte
	script []resp
	chunks [][]byte // what each call returned
	last   string   // class of the last response
	zero   bool     // some call returned (0, nil)
}

func (r *scriptReader) Read(p []byte) (int, error) {
	if len(r.script) == 0 {
		r.last = "exhausted"
		return 0, io.EOF
	}
	s := r.script[0]
	r.script = r.script[1:]
	if s.k < 0 {
		r.last = "negative"
		return s.k, s.err
	}
	n := s.k
	if n > len(p) {
		n = len(p)
	}
	if n > len(r.src) {
		n = len(r.src)
	}
	copy(p, r.src[:n])
	r.chunks = append(r.chunks, append([]byte(nil), r.src[:n]...))
	r.src = r.src[n:]
	switch {
	case s.err == nil && n == 0:
		r.zero = true
		r.last = "zero+nil"
	case s.err == nil:
		r.last = "data+nil"
	case s.err == io.EOF && n > 0:
		r.last = "data+eof"
	case s.err == io.EOF:
		r.last = "eof"
	case n > 0:
		r.last = "data+err"
	default:
		r.last = "err"
	}
	return n, s.err
}

// scriptWriter: Write(p) takes the next response (k, e) and accepts
// min(k, len p) bytes; k < 0 claims len p + |k| bytes; an exhausted script
// accepts everything.
type scriptWriter struct {
	script   []resp
	got      []byte
	firstErr error  // first non-nil error returned
	short    bool   // a call accepted fewer bytes than offered without an error
	stopped  bool   // a call ended in error / short write
	after    bool   // Write was called again after that
	class    string // class of the call that stopped the transfer
}

func (x *scriptWriter) Write(p []byte) (int, error) {
	if x.stopped {
		x.after = true
	}
	if len(x.script) == 0 {
		x.got = append(x.got, p...)
		return len(p), nil
	}
	s := x.script[0]
	x.script = x.script[1:]
	if s.k < 0 {
		x.got = append(x.got, p...)
		x.class = "overcount"
		return len(p) - s.k, s.err
	}
	n := s.k
	if n > len(p) {
		n = len(p)
	}
	x.got = append(x.got, p[:n]...)
	if s.err != nil {
		if !x.stopped {
			x.firstErr = s.err
			if n < len(p) {
				x.class = "err-midnode"
			} else {
				x.class = "err-node-end"
			}
		}
		x.stopped = true
	} else if n < len(p) {
		if !x.stopped {
			x.short = true
			x.class = "short-nil"
		}
		x.stopped = true
	}
	return n, s.err
}

// ---------------------------------------------------------------- state

type cell struct {
	mem     []byte
	aliased bool
}

// rseg is one segment of the reference FIFO; cell >= 0 means the node is the
// caller's memory cells[cell].mem[off:off+len(data)] (Append), else a copy.
type rseg struct {
	data []byte
	cell int
	off  int
}

type state struct {
	llb   *linkedlist.Buffer
	cells []*cell
	ref   []rseg
}

func newState() *state { return &state{llb: &linkedlist.Buffer{}} }

func (s *state) content() []byte {
	var out []byte
	for _, g := range s.ref {
		out = append(out, g.data...)
	}
	return out
}

func (s *state) total() int {
	n := 0
	for _, g := range s.ref {
		n += len(g.data)
	}
	return n
}

// consume removes k bytes from the front of the reference FIFO.
func (s *state) consume(k int) (inside bool) {
	for k > 0 && len(s.ref) > 0 {
		g := &s.ref[0]
		if k < len(g.data) {
			g.data = g.data[k:]
			g.off += k
			return true
		}
		k -= len(g.data)
		s.ref = s.ref[1:]
	}
	return false
}

func short(b []byte) string {
	if len(b) > 24 {
		return fmt.Sprintf("%x..(%d)", b[:24], len(b))
	}
	return fmt.Sprintf("%x", b)
}

func firstDiff(a, b []byte) int {
	n := len(a)
	if len(b) < n {
		n = len(b)
	}
	for i := 0; i < n; i++ {
		if a[i] != b[i] {
			return i
		}
	}
	return n
}

// observe emits the `st` line and runs the state part of the oracle.
// site/class name the operation just executed.
func (s *state) observe(site, class string) {
	var bss [][]byte
	var err error
	if p, _ := tr.Guard(func() { bss, err = s.llb.Peek(-1) }); p {
		w.Obs(tr.L("st", "panic"))
		w.Fail("Peek", "panic n=-1 after="+site, "Peek(-1) panicked")
		return
	}
	var content []byte
	emptyNode := false
	for _, b := range bss {
		if len(b) == 0 {
			emptyNode = true
		}
		content = append(content, b...)
	}
	bf, ln, ie := s.llb.Buffered(), s.llb.Len(), s.llb.IsEmpty()
	w.Obs(tr.L("st", tr.I(bf), tr.I(ln), tr.B(ie), tr.I(len(bss)), tr.X(content)))
	bad := false
	if err != nil {
		w.Fail("Peek", "error n=-1 after="+site, "Peek(-1) returned "+errSym(err))
		bad = true
	}
	want := s.content()
	if !bytes.Equal(content, want) {
		kind := "content-differs"
		if len(content) < len(want) {
			kind = "content-lost"
		} else if len(content) > len(want) {
			kind = "content-extra"
		}
		w.Fail(site, kind+" class="+class,
			fmt.Sprintf("content has %d bytes, reference FIFO %d, first difference at %d: got %s want %s",
				len(content), len(want), firstDiff(content, want), short(content), short(want)))
		bad = true
	}
	if bf != len(content) {
		w.Fail("Buffered", "buffered!=content-bytes after="+site+" class="+class,
			fmt.Sprintf("Buffered()=%d but the list holds %d bytes", bf, len(content)))
		bad = true
	}
	if ln != len(bss) {
		w.Fail("Len", "len!=nodes after="+site+" class="+class,
			fmt.Sprintf("Len()=%d but the list has %d nodes", ln, len(bss)))
		bad = true
	}
	if ie != (bf == 0) {
		w.Fail("IsEmpty", fmt.Sprintf("isempty=%s buffered=%d emptynode=%s after=%s class=%s", tr.B(ie), bf, tr.B(emptyNode), site, class),
			"IsEmpty() must hold exactly when Buffered()==0")
		bad = true
	}
	if !bad && len(bss) != len(s.ref) {
		w.Fail(site, "segments class="+class,
			fmt.Sprintf("list has %d nodes, reference FIFO %d segments", len(bss), len(s.ref)))
		bad = true
	}
	if bad { // resynchronise so that later verdicts are independent
		s.resync(bss)
	}
}

// resync replaces the reference FIFO by what the list holds now; nodes that
// are (part of) a still-referenced Append cell keep their alias information.
func (s *state) resync(bss [][]byte) {
	old := s.ref
	s.ref = nil
	for _, b := range bss {
		g := rseg{data: append([]byte(nil), b...), cell: -1}
		if len(b) > 0 {
			for _, o := range old {
				if o.cell < 0 {
					continue
				}
				mem := s.cells[o.cell].mem
				for j := range mem {
					if &mem[j] == &b[0] {
						g.cell, g.off = o.cell, j
					}
				}
			}
		}
		s.ref = append(s.ref, g)
	}
}

func flatten(bss [][]byte) []byte {
	var out []byte
	for _, b := range bss {
		out = append(out, b...)
	}
	return out
}

func peekObs(name string, bss [][]byte, err error) tr.Line {
	args := []string{errSym(err), tr.I(len(bss))}
	for _, b := range bss {
		args = append(args, tr.X(b))
	}
	return tr.L(name, args...)
}

// exec executes one op line on the implementation, emits its obs lines and
// judges it with the reference FIFO.
func (s *state) exec(op tr.Line) {
	w.Op(op)
	w.Hist("op-" + op.Name)
	site, class := op.Name, "-"
	switch op.Name {
	case "pb", "pf":
		p := op.Bytes(0)
		mem := append(make([]byte, 0, len(p)), p...)
		s.cells = append(s.cells, &cell{mem: mem})
		if op.Name == "pb" {
			site = "PushBack"
			s.llb.PushBack(mem)
			if len(p) > 0 {
				s.ref = append(s.ref, rseg{data: append([]byte(nil), p...), cell: -1})
			}
		} else {
			site = "PushFront"
			s.llb.PushFront(mem)
			if len(p) > 0 {
				s.ref = append([]rseg{{data: append([]byte(nil), p...), cell: -1}}, s.ref...)
			}
		}
		class = sizeClass(len(p))
	case "app":
		site = "Append"
		p := op.Bytes(1)
		var mem []byte
		if op.Args[0] == "alloc" {
			mem = s.llb.AllocNode(len(p))
			if len(mem) != len(p) {
				w.Fail("AllocNode", fmt.Sprintf("len=%d want=%d", len(mem), len(p)), "AllocNode length")
				mem = make([]byte, len(p))
			}
		} else {
			mem = make([]byte, len(p))
		}
		copy(mem, p)
		s.cells = append(s.cells, &cell{mem: mem, aliased: true})
		s.llb.Append(mem)
		if len(p) > 0 {
			s.ref = append(s.ref, rseg{data: append([]byte(nil), p...), cell: len(s.cells) - 1})
		}
		class = sizeClass(len(p))
	case "mut":
		site = "caller-write"
		c, i, v := op.Int(0), op.Int(1), op.Int(2)
		if c >= 0 && c < len(s.cells) && i >= 0 && i < len(s.cells[c].mem) {
			cl := s.cells[c]
			if !cl.aliased {
				cl.mem[i] = byte(v) // must stay invisible
				class = "copied"
				w.Tag("mut-copied")
			} else {
				// the memory belongs to the buffer until the node is consumed;
				// afterwards it is in the pool and must not be touched
				live := false
				for k := range s.ref {
					g := &s.ref[k]
					if g.cell == c {
						live = true
						if i >= g.off && i < g.off+len(g.data) {
							g.data[i-g.off] = byte(v)
							w.Tag("mut-aliased-visible")
						}
					}
				}
				if live {
					cl.mem[i] = byte(v)
				}
				class = "aliased"
			}
		}
	case "read":
		site = "Read"
		n := op.Int(0)
		p := make([]byte, n)
		cnt, err := s.llb.Read(p)
		if cnt < 0 || cnt > n {
			w.Obs(tr.L("read", tr.I(cnt), errSym(err), "x"))
			w.Fail("Read", fmt.Sprintf("count-out-of-range n=%d cnt=%d", n, cnt), "")
			break
		}
		w.Obs(tr.L("read", tr.I(cnt), errSym(err), tr.X(p[:cnt])))
		tot := s.total()
		want := n
		if want > tot {
			want = tot
		}
		var werr error
		if n > 0 && want == 0 {
			werr = io.EOF
		}
		exp := s.content()[:want]
		class = "whole"
		if s.consume(want) {
			class = "inside-node"
			w.Tag("read-inside-node")
		}
		if cnt != want || !bytes.Equal(p[:cnt], exp) || err != werr {
			w.Fail("Read", "ret class="+class, fmt.Sprintf("Read(%d) = (%d,%s,%s) want (%d,%s,%s)", n, cnt, errSym(err), short(p[:cnt]), want, errSym(werr), short(exp)))
		}
	case "peek":
		site = "Peek"
		n := op.Int(0)
		var bss [][]byte
		var err error
		if p, _ := tr.Guard(func() { bss, err = s.llb.Peek(n) }); p {
			w.Obs(tr.L("peek", "panic"))
			w.Fail("Peek", fmt.Sprintf("panic n=%d", n), "")
			break
		}
		w.Obs(peekObs("peek", bss, err))
		tot := s.total()
		got := flatten(bss)
		switch {
		case n <= 0 || n == math.MaxInt32:
			class = "all"
			if err != nil || !bytes.Equal(got, s.content()) {
				w.Fail("Peek", "ret class=all", fmt.Sprintf("Peek(%d) = (%s,%s) want everything", n, short(got), errSym(err)))
			}
		case n > tot:
			class = "beyond"
			w.Tag("peek-shortbuf")
			if err != io.ErrShortBuffer || len(bss) != 0 {
				w.Fail("Peek", "ret class=beyond", fmt.Sprintf("Peek(%d) with %d buffered = (%d pieces,%s) want ErrShortBuffer", n, tot, len(bss), errSym(err)))
			}
		default:
			class = "prefix"
			w.Tag("peek-prefix")
			if err != nil || !bytes.Equal(got, s.content()[:n]) {
				w.Fail("Peek", "ret class=prefix", fmt.Sprintf("Peek(%d) = (%s,%s) want the first %d bytes", n, short(got), errSym(err), n))
			}
		}
	case "peekb":
		site = "PeekWithBytes"
		n := op.Int(0)
		var bs [][]byte
		for i := 1; i < len(op.Args); i++ {
			bs = append(bs, op.Bytes(i))
		}
		var bss [][]byte
		var err error
		if p, _ := tr.Guard(func() { bss, err = s.llb.PeekWithBytes(n, bs...) }); p {
			w.Obs(tr.L("peekb", "panic"))
			w.Fail("PeekWithBytes", fmt.Sprintf("panic n=%d", n), "")
			break
		}
		w.Obs(peekObs("peekb", bss, err))
		all := append(flatten(bs), s.content()...)
		got := flatten(bss)
		switch {
		case err == nil:
			want := len(all)
			if n > 0 && n != math.MaxInt32 && n < want {
				want = n
				w.Tag("peekb-prefix")
			}
			class = "ok"
			if !bytes.Equal(got, all[:want]) {
				w.Fail("PeekWithBytes", "ret class=ok", fmt.Sprintf("PeekWithBytes(%d) = %s want %s", n, short(got), short(all[:want])))
			} else if n > 0 && n != math.MaxInt32 && n > len(all) {
				w.Fail("PeekWithBytes", "no-error-beyond-total", fmt.Sprintf("n=%d total=%d", n, len(all)))
			}
		case err == io.ErrShortBuffer:
			// the given slices count towards n (the guard compared n with the list alone until /repo 3230e49, see C10)
			class = "shortbuf"
			w.Tag("peekb-shortbuf")
			if !(n > len(all)) || len(bss) != 0 {
				w.Fail("PeekWithBytes", "shortbuf-within-total", fmt.Sprintf("n=%d list=%d given=%d", n, s.total(), len(all)-s.total()))
			}
		default:
			w.Fail("PeekWithBytes", "ret err="+errSym(err), "")
		}
	case "pop":
		site = "Pop"
		b := s.llb.Pop()
		if b == nil {
			w.Obs(tr.L("pop", "nil"))
		} else {
			w.Obs(tr.L("pop", tr.X(b)))
		}
		if len(s.ref) == 0 {
			class = "empty"
			if b != nil {
				w.Fail("Pop", "ret class=empty", "Pop on an empty list returned a slice")
			}
		} else {
			class = "node"
			if b == nil || !bytes.Equal(b, s.ref[0].data) {
				w.Fail("Pop", "ret class=node", fmt.Sprintf("Pop = %s want %s", short(b), short(s.ref[0].data)))
			}
			s.ref = s.ref[1:]
		}
	case "discard":
		site = "Discard"
		n := op.Int(0)
		d, err := s.llb.Discard(n)
		w.Obs(tr.L("discard", tr.I(d), errSym(err)))
		want := n
		if want < 0 {
			want = 0
		}
		if tot := s.total(); want > tot {
			want = tot
			w.Tag("discard-beyond")
		}
		class = "whole"
		if s.consume(want) {
			class = "inside-node"
			w.Tag("discard-inside-node")
		}
		if d != want || err != nil {
			w.Fail("Discard", "ret class="+class, fmt.Sprintf("Discard(%d) = (%d,%s) want (%d,nil)", n, d, errSym(err), want))
		}
	case "rf":
		site = "ReadFrom"
		r := &scriptReader{src: op.Bytes(0), script: parseScript(op.Args[1:])}
		var n int64
		var err error
		if p, _ := tr.Guard(func() { n, err = s.llb.ReadFrom(r) }); p {
			w.Obs(tr.L("rf", "panic"))
			class = "panic-" + r.last
			if r.last != "negative" {
				w.Fail("ReadFrom", "panic last="+r.last, "ReadFrom panicked with a contract-respecting reader")
			}
			for _, c := range r.chunks { // what was stored before the violation stays
				if len(c) > 0 {
					s.ref = append(s.ref, rseg{data: c, cell: -1})
				}
			}
			break
		}
		w.Obs(tr.L("rf", tr.I64(n), errSym(err)))
		class = "last=" + r.last
		if r.zero {
			class += "+zero-nil"
			w.Tag("rf-zero-nil")
		}
		w.Tag("rf-" + r.last)
		ret := 0
		for _, c := range r.chunks {
			ret += len(c)
			if len(c) > 0 {
				s.ref = append(s.ref, rseg{data: c, cell: -1})
			}
			if len(c) == minRead {
				w.Tag("rf-full-node")
			}
		}
		var werr error
		if r.last == "data+err" || r.last == "err" {
			werr = errScript
		}
		if int(n) != ret || err != werr {
			w.Fail("ReadFrom", "ret class="+class, fmt.Sprintf("ReadFrom = (%d,%s), the reader returned %d bytes and %s", n, errSym(err), ret, errSym(werr)))
		}
	case "wt":
		site = "WriteTo"
		x := &scriptWriter{script: parseScript(op.Args)}
		var n int64
		var err error
		if p, _ := tr.Guard(func() { n, err = s.llb.WriteTo(x) }); p {
			w.Obs(tr.L("wt", "panic"))
			class = "panic-" + x.class
			if x.class != "overcount" {
				w.Fail("WriteTo", "panic class="+x.class, "WriteTo panicked with a contract-respecting writer")
			}
			// contract violated by the writer: the property does not apply; take the state as it is
			bss, _ := s.llb.Peek(-1)
			s.resync(bss)
			break
		}
		w.Obs(tr.L("wt", tr.I64(n), errSym(err), tr.X(x.got)))
		class = x.class
		if class == "" {
			class = "complete"
		}
		w.Tag("wt-" + class)
		before := s.content()
		werr := x.firstErr
		if werr == nil && x.short {
			werr = io.ErrShortWrite
		}
		k := len(x.got)
		if k > len(before) || !bytes.Equal(x.got, before[:k]) {
			w.Fail("WriteTo", "written-not-prefix class="+class, fmt.Sprintf("writer got %s, queue held %s", short(x.got), short(before)))
			k = 0
		}
		if int(n) != len(x.got) || err != werr || x.after {
			w.Fail("WriteTo", "ret class="+class, fmt.Sprintf("WriteTo = (%d,%s) after=%v; writer accepted %d bytes, want err %s", n, errSym(err), x.after, len(x.got), errSym(werr)))
		}
		if err == nil && k != len(before) {
			w.Fail("WriteTo", "nil-error-but-incomplete class="+class, "")
		}
		if s.consume(k) {
			w.Tag("wt-inside-node")
		}
	case "reset":
		site = "Reset"
		s.llb.Reset()
		s.ref = nil
	case "alloc":
		site = "AllocNode"
		n := op.Int(0)
		p := s.llb.AllocNode(n)
		w.Obs(tr.L("alloc", tr.I(len(p))))
		want := n
		if want < 0 {
			want = 0
		}
		if len(p) != want {
			w.Fail("AllocNode", fmt.Sprintf("len=%d want=%d", len(p), want), "")
		}
		s.llb.FreeNode(p)
	default:
		w.Obs(tr.L("unknown"))
		return
	}
	s.observe(site, class)
}

const minRead = 512

func sizeClass(n int) string {
	switch {
	case n == 0:
		w.Tag("seg-0")
		return "len0"
	case n == 1:
		return "len1"
	case n >= 511 && n <= 513:
		w.Tag("seg-511..513")
		return "len511..513"
	case n&(n-1) == 0:
		return "pow2"
	}
	return "other"
}

// ---------------------------------------------------------------- generator

type gen struct {
	r *tr.Rand
	s *state
}

func (g *gen) size() int {
	switch g.r.Intn(20) {
	case 0, 1:
		return 0
	case 2, 3:
		return 1
	case 4:
		if g.r.Chance(60) {
			return g.r.Pick([]int{511, 512, 513})
		}
		return g.r.Pick([]int{600, 1000, 1023, 1024, 1025})
	case 5, 6:
		return g.r.Pick([]int{2, 3, 5, 7, 13, 31, 33, 100, 255, 257, 300})
	}
	return g.r.Range(1, 32)
}

// amount picks a byte count relative to the current queue: boundaries of the
// first nodes, the total, and values that end inside a node.
func (g *gen) amount() int {
	s := g.s
	tot := s.total()
	var cand []int
	cand = append(cand, 0, 1, tot-1, tot, tot+1, tot+7)
	cum := 0
	for i := 0; i < len(s.ref) && i < 3; i++ {
		l := len(s.ref[i].data)
		cand = append(cand, cum+l-1, cum+l, cum+l+1, cum+g.r.Range(1, l))
		cum += l
	}
	if tot > 0 {
		cand = append(cand, g.r.Range(1, tot), g.r.Range(1, tot))
	}
	v := cand[g.r.Intn(len(cand))]
	if v < 0 {
		v = 0
	}
	return v
}

func (g *gen) readerScript() ([]byte, []resp) {
	src := g.r.Bytes(g.r.Pick([]int{0, 1, 5, 40, 100, 511, 512, 513, 700, 1024, 1025, 1300, g.r.Intn(64), g.r.Intn(64), g.r.Intn(64), g.r.Intn(64), g.r.Intn(64), g.r.Intn(64)}))
	var sc []resp
	k := func() int {
		if g.r.Chance(7) {
			return 0
		}
		return g.r.Pick([]int{1, 7, 100, 511, 512, 513, 1000, g.r.Range(1, 64)})
	}
	for i, n := 0, g.r.Intn(5); i < n; i++ {
		sc = append(sc, resp{k(), nil})
	}
	switch v := g.r.Intn(100); {
	case v < 28: // script runs out: implicit (0, EOF)
	case v < 53:
		sc = append(sc, resp{k(), io.EOF}) // data together with EOF
	case v < 63:
		sc = append(sc, resp{0, io.EOF})
	case v < 88:
		sc = append(sc, resp{k(), errScript}) // error after partial transfer
	case v < 98:
		sc = append(sc, resp{0, errScript})
	default:
		sc = append(sc, resp{-1 - g.r.Intn(3), nil}) // contract violation
	}
	return src, sc
}

func (g *gen) writerScript() []resp {
	var sc []resp
	segLen := 0
	if len(g.s.ref) > 0 {
		segLen = len(g.s.ref[0].data)
	}
	shortK := func() int {
		v := g.r.Pick([]int{0, 1, segLen - 1, segLen / 2, g.r.Range(0, segLen)})
		if v < 0 {
			v = 0
		}
		return v
	}
	for i, n := 0, g.r.Intn(5); i < n; i++ {
		switch v := g.r.Intn(100); {
		case v < 50:
			sc = append(sc, resp{1 << 20, nil})
		case v < 70:
			sc = append(sc, resp{shortK(), nil})
		case v < 82:
			sc = append(sc, resp{shortK(), errScript})
		case v < 92:
			sc = append(sc, resp{1 << 20, errScript})
		case v < 99:
			sc = append(sc, resp{0, errScript})
		default:
			sc = append(sc, resp{-1 - g.r.Intn(3), nil})
		}
	}
	return sc
}

func (g *gen) nextOp() tr.Line {
	s := g.s
	r := g.r
	tot := s.total()
	// bias towards draining when the queue is large (keeps traces small)
	drain := tot > 700
	v := r.Intn(100)
	if drain && v < 60 {
		v = 40 + r.Intn(35)
	}
	switch {
	case v < 14:
		return tr.L("pb", tr.X(r.Bytes(g.size())))
	case v < 21:
		return tr.L("pf", tr.X(r.Bytes(g.size())))
	case v < 29:
		how := "make"
		if r.Chance(50) {
			how = "alloc"
		}
		return tr.L("app", how, tr.X(r.Bytes(g.size())))
	case v < 40:
		// the caller overwrites one of its buffers (prefer recent ones)
		if len(s.cells) == 0 {
			return tr.L("pb", tr.X(r.Bytes(g.size())))
		}
		c := len(s.cells) - 1 - r.Intn(minInt(len(s.cells), 4))
		if r.Chance(20) {
			c = r.Intn(len(s.cells))
		}
		n := len(s.cells[c].mem)
		if n == 0 {
			return tr.L("mut", tr.I(c), "0", tr.I(r.Intn(256)))
		}
		return tr.L("mut", tr.I(c), tr.I(r.Intn(n)), tr.I(r.Intn(256)))
	case v < 52:
		return tr.L("read", tr.I(g.amount()))
	case v < 60:
		n := g.amount()
		switch r.Intn(8) {
		case 0:
			n = -1
		case 1:
			n = math.MaxInt32
		case 2:
			n = math.MaxInt32 - 1
		}
		return tr.L("peek", tr.I(n))
	case v < 65:
		args := []string{""}
		extra := 0
		for i, k := 0, r.Intn(4); i < k; i++ {
			b := r.Bytes(r.Pick([]int{0, 1, 3, 10, r.Intn(30)}))
			extra += len(b)
			args = append(args, tr.X(b))
		}
		n := g.amount()
		switch r.Intn(6) {
		case 0:
			n = -1
		case 1:
			n = extra + g.amount()
		case 2:
			n = r.Range(0, extra+1)
		case 3:
			n = math.MaxInt32
		}
		args[0] = tr.I(n)
		return tr.L("peekb", args...)
	case v < 70:
		return tr.L("pop")
	case v < 79:
		n := g.amount()
		if r.Chance(8) {
			n = -r.Intn(3)
		}
		return tr.L("discard", tr.I(n))
	case v < 88:
		src, sc := g.readerScript()
		return tr.L("rf", append([]string{tr.X(src)}, scriptArgs(sc)...)...)
	case v < 96:
		return tr.L("wt", scriptArgs(g.writerScript())...)
	case v < 98:
		return tr.L("reset")
	default:
		return tr.L("alloc", tr.I(r.Pick([]int{-1, 0, 1, 7, 512, 513, 4096, 5000})))
	}
}

func minInt(a, b int) int {
	if a < b {
		return a
	}
	return b
}

func replay(path string) {
	for _, c := range tr.ReadCases(path) {
		w.Case(c.ID, "llist")
		w.Tag("replay")
		s := newState()
		for _, op := range c.Ops {
			s.exec(op)
		}
		w.End()
	}
}

func main() {
	seed := flag.Uint64("seed", 1, "")
	tier := flag.String("tier", "quick", "")
	out := flag.String("out", "trace.txt", "")
	stats := flag.String("stats", "", "")
	rep := flag.String("replay", "", "")
	flag.Parse()
	w = tr.NewWriter(*out)
	defer w.Close(*stats)
	if *rep != "" {
		replay(*rep)
		return
	}
	rnd := tr.NewRand(*seed)
	cases := 600
	if *tier == "thorough" {
		cases = 30000
	}
	for i := 0; i < cases; i++ {
		w.Case(fmt.Sprintf("l%d", i+1), "llist")
		g := &gen{r: rnd, s: newState()}
		n := rnd.Range(1, 60)
		for j := 0; j < n; j++ {
			g.s.exec(g.nextOp())
		}
		w.End()
	}
}
