(* Generic interleaving semantics: a labelled transition system, the states
   reachable from the initial ones, the invariant rule, finite traces, and the
   special case of a system given by a deterministic, executable step function
   (scheduler choice in, observation out), which is the shape every concurrent
   model of this development has.  No model-specific content. *)
From Coq Require Import List.
Import ListNotations.

Section LTS.
  Variables (S L : Type).
  Variable init : S -> Prop.
  Variable step : S -> L -> S -> Prop.

  Inductive reachable : S -> Prop :=
  | reach_init : forall s, init s -> reachable s
  | reach_step : forall s l s', reachable s -> step s l s' -> reachable s'.

  (* exec s tr s' : s' is reached from s by the labels tr (oldest first) *)
  Inductive exec : S -> list L -> S -> Prop :=
  | exec_nil : forall s, exec s [] s
  | exec_snoc : forall s tr s' l s'', exec s tr s' -> step s' l s'' -> exec s (tr ++ [l]) s''.

  Lemma exec_app : forall s tr1 s1 tr2 s2,
    exec s tr1 s1 -> exec s1 tr2 s2 -> exec s (tr1 ++ tr2) s2.
  Proof.
    intros s tr1 s1 tr2 s2 H1 H2. induction H2.
    - rewrite app_nil_r. exact H1.
    - rewrite app_assoc. eapply exec_snoc; eauto.
  Qed.

  Lemma exec_cons : forall s l s1 tr s2,
    step s l s1 -> exec s1 tr s2 -> exec s (l :: tr) s2.
  Proof.
    intros s l s1 tr s2 Hs He.
    change (l :: tr) with ([l] ++ tr). eapply exec_app; [|exact He].
    change [l] with ([] ++ [l]). eapply exec_snoc; [apply exec_nil|exact Hs].
  Qed.

  Lemma reachable_exec : forall s,
    reachable s <-> exists s0 tr, init s0 /\ exec s0 tr s.
  Proof.
    intro s; split.
    - induction 1 as [s Hi | s l s' Hr [s0 [tr [Hi He]]] Hs].
      + exists s, []. split; [exact Hi|apply exec_nil].
      + exists s0, (tr ++ [l]). split; [exact Hi|eapply exec_snoc; eauto].
    - intros [s0 [tr [Hi He]]]. induction He.
      + apply reach_init; exact Hi.
      + eapply reach_step; eauto.
  Qed.

  Lemma reachable_exec_closed : forall s tr s', reachable s -> exec s tr s' -> reachable s'.
  Proof.
    intros s tr s' Hr He. induction He; [exact Hr|].
    eapply reach_step; [apply IHHe; exact Hr|eassumption].
  Qed.

  (* The invariant rule; the step premise may use reachability of the source. *)
  Theorem invariant_rule : forall Inv : S -> Prop,
    (forall s, init s -> Inv s) ->
    (forall s l s', reachable s -> Inv s -> step s l s' -> Inv s') ->
    forall s, reachable s -> Inv s.
  Proof. intros Inv Hi Hs s Hr. induction Hr; eauto. Qed.

  (* An invariant may be proved relative to an already established one. *)
  Theorem invariant_rule_under : forall J Inv : S -> Prop,
    (forall s, reachable s -> J s) ->
    (forall s, init s -> Inv s) ->
    (forall s l s', J s -> J s' -> Inv s -> step s l s' -> Inv s') ->
    forall s, reachable s -> Inv s.
  Proof.
    intros J Inv HJ Hi Hs s Hr. induction Hr; eauto.
    eapply Hs; eauto. apply HJ. eapply reach_step; eauto.
  Qed.

  (* Two-state rule: a preorder respected by every step relates the two ends
     of every execution (monotone counters, append-only logs). *)
  Theorem monotone_rule : forall R : S -> S -> Prop,
    (forall s, R s s) -> (forall a b c, R a b -> R b c -> R a c) ->
    (forall s l s', reachable s -> step s l s' -> R s s') ->
    forall s tr s', reachable s -> exec s tr s' -> R s s'.
  Proof.
    intros R Hrefl Htrans Hs s tr s' Hr He. induction He; [apply Hrefl|].
    eapply Htrans; [apply IHHe; exact Hr|]. eapply Hs; [|eassumption].
    eapply reachable_exec_closed; eauto.
  Qed.
End LTS.

Arguments reachable {S L} init step s.
Arguments exec {S L} step s tr s'.

(* A system given by an executable step function: the scheduler's choice is
   the input, the observation is the output, and both together are the label. *)
Section FunSys.
  Variables (S A O : Type).
  Variable fstep : S -> A -> S * O.

  Definition fun_step (s : S) (l : A * O) (s' : S) : Prop := fstep s (fst l) = (s', snd l).

  Fixpoint run (s : S) (sched : list A) : S * list O :=
    match sched with
    | [] => (s, [])
    | a :: r => let '(s1, o) := fstep s a in let '(s2, os) := run s1 r in (s2, o :: os)
    end.

  Lemma run_exec : forall sched s,
    exec fun_step s (combine sched (snd (run s sched))) (fst (run s sched)).
  Proof.
    induction sched as [|a r IH]; intro s; cbn.
    - apply exec_nil.
    - destruct (fstep s a) as [s1 o] eqn:E. specialize (IH s1).
      destruct (run s1 r) as [s2 os]. cbn in *.
      eapply exec_cons; [|exact IH]. unfold fun_step; cbn. exact E.
  Qed.

  Lemma run_reachable : forall (init : S -> Prop) s sched,
    init s -> reachable init fun_step (fst (run s sched)).
  Proof.
    intros init s sched Hi. eapply reachable_exec_closed; [apply reach_init; exact Hi|apply run_exec].
  Qed.
End FunSys.

Arguments fun_step {S A O} fstep s l s'.
Arguments run {S A O} fstep s sched.
