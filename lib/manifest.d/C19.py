CHECK = dict(
    engine="engine", design_ref="4 / C19",
    text="Proof (full on the model for the table, Stop's result, invalid arguments, double stop and 'at most one result'; partial "
         "for 'exactly one result' and for handles captured in OnBoot, see known findings) on an interleaving model of the engine "
         "life cycle (Run caller, loops, main reactor, ticker, user goroutines, Register/Enroll workers; one synchronisation "
         "operation per step): control_table (the result of every control call in every phase equals the property's table and is "
         "what the step function answers), invalid_args, client_calls_follow_state (a gnet.Client's Dial / Enroll / Stop in the states never started / running / stopped), client_dial_queued + client_dial_completes_partial (what a blocked Dial waits for), no_effect_after_shutdown, double_stop_harmless, shutdown_is_final, "
         "stop_starts_shutdown, stop_result (nil only with inShutdown set; the context's error only if the context ended; the "
         "engine stays cancelled), one_result (delivered results = the worker's counter, never more than one, one iff done), "
         "one_result_partial + registration_queued (a waiting registration's task sits in the queue of its loop and completes if "
         "that loop still polls), one_result_refuted and never_started_refuted (witnesses of the two known findings). Tied to "
         "the current source by running the real engine through scripted phases (pause points via the vunix shim) and comparing "
         "every result class, callback and hidden flag with the extracted model, plus a direct table oracle.",
    note="Known findings: Register accepted after the loops have exited and before inShutdown is set never delivers a result; "
         "the handle captured in OnBoot of a Run that returns without starting answers nil (not the empty-engine error). "
         "context/errgroup/sync.Map/channels/ants are modelled as documented; kernel failures during start are modelled separately (coq/Model/Start.v, C07); "
         " the vunix shim, engine_export.go and the quiescence detection of the "
         "driver are trusted.",
    technique="Coq proof (inductive invariants over an executable labelled transition system with history variable; pure "
              "table functions) + differential phase scenarios on the real engine + table oracle",
)
ENGINE = dict(name="engine", path="coq/Model/Engine.v", serves_properties=["C06", "C19"],
              kind_free_text="Gallina interleaving model of engine_unix.go / gnet.go control API / reactor_default.go / "
                             "eventloop_unix.go Register-Enroll-Execute-ticker / client_unix.go Start-Stop over Lib/Interleave.v; "
                             "drv-engine (real engine, vunix pause points, scripted handler and peers)")
