// Package tr writes and reads the line-based trace format shared with the
// extracted Coq models (see DESIGN.md Appendix B), and provides the seeded
// PRNG every generator draws from.
package tr

import (
	"bufio"
	"encoding/hex"
	"encoding/json"
	"fmt"
	"hash/fnv"
	"io"
	"os"
	"sort"
	"strconv"
	"strings"
	"sync"
	"time"
)

// ---------------------------------------------------------------- PRNG

type Rand struct{ s uint64 }

func NewRand(seed uint64) *Rand { return &Rand{s: seed*0x9E3779B97F4A7C15 + 0x1234567} }

func (r *Rand) U64() uint64 {
	r.s += 0x9E3779B97F4A7C15
	z := r.s
	z = (z ^ (z >> 30)) * 0xBF58476D1CE4E5B9
	z = (z ^ (z >> 27)) * 0x94D049BB133111EB
	return z ^ (z >> 31)
}

// Intn returns a value in [0,n); n<=0 gives 0.
func (r *Rand) Intn(n int) int {
	if n <= 0 {
		return 0
	}
	return int(r.U64() % uint64(n))
}

func (r *Rand) Range(lo, hi int) int { // inclusive
	if hi <= lo {
		return lo
	}
	return lo + r.Intn(hi-lo+1)
}

func (r *Rand) Chance(pct int) bool { return r.Intn(100) < pct }

func (r *Rand) Pick(xs []int) int { return xs[r.Intn(len(xs))] }

func (r *Rand) PickS(xs []string) string { return xs[r.Intn(len(xs))] }

func (r *Rand) Bytes(n int) []byte {
	b := make([]byte, n)
	for i := range b {
		b[i] = byte(r.U64())
	}
	return b
}

// ---------------------------------------------------------------- lines

// Line is one trace record without its tag.
type Line struct {
	Name string
	Args []string
}

func I(v int) string      { return strconv.Itoa(v) }
func I64(v int64) string  { return strconv.FormatInt(v, 10) }
func U64(v uint64) string { return strconv.FormatUint(v, 10) }
func X(b []byte) string   { return "x" + hex.EncodeToString(b) }
func B(b bool) string {
	if b {
		return "1"
	}
	return "0"
}

func (l Line) String() string {
	if len(l.Args) == 0 {
		return l.Name
	}
	return l.Name + " " + strings.Join(l.Args, " ")
}

func L(name string, args ...string) Line { return Line{Name: name, Args: args} }

func (l Line) Int(i int) int {
	v, err := strconv.ParseInt(l.Args[i], 10, 64)
	if err != nil {
		panic("trace: bad int " + l.Args[i])
	}
	return int(v)
}

func (l Line) Bytes(i int) []byte {
	b, err := hex.DecodeString(strings.TrimPrefix(l.Args[i], "x"))
	if err != nil {
		panic("trace: bad hex " + l.Args[i])
	}
	return b
}

// ---------------------------------------------------------------- writer

type Writer struct {
	mu      sync.Mutex
	wd      *time.Timer
	w       *bufio.Writer
	f       *os.File
	caseBuf []string
	caseID  string
	Stats   *Stats
	tags    map[string]bool
	nontriv bool
	ops     int
}

type Stats struct {
	Cases           int            `json:"cases"`
	Ops             int            `json:"ops"`
	DistinctNontriv int            `json:"distinct_nontrivial"`
	Tags            map[string]int `json:"tags"`
	Hist            map[string]int `json:"hist"`
	Fails           int            `json:"fails"`
	Samples         []string       `json:"samples"`
	seen            map[uint64]bool
}

func NewWriter(path string) *Writer {
	f, err := os.Create(path)
	if err != nil {
		panic(err)
	}
	return &Writer{w: bufio.NewWriterSize(f, 1<<20), f: f,
		Stats: &Stats{Tags: map[string]int{}, Hist: map[string]int{}, seen: map[uint64]bool{}}}
}

// caseTimeout: a case that is still open after this long is a hang of the code under test (an operation
// that never returns): the case is written out with a `fail hang` line and the driver exits, instead
// of sitting there until the check's own time limit.  VERIF_CASE_TIMEOUT (seconds) overrides.
func caseTimeout() time.Duration {
	if v, err := strconv.Atoi(os.Getenv("VERIF_CASE_TIMEOUT")); err == nil && v > 0 {
		return time.Duration(v) * time.Second
	}
	return 120 * time.Second
}

func (t *Writer) Case(id, family string, cfg ...string) {
	t.mu.Lock()
	defer t.mu.Unlock()
	if t.wd != nil {
		t.wd.Stop()
	}
	t.wd = time.AfterFunc(caseTimeout(), func() {
		t.mu.Lock()
		t.caseBuf = append(t.caseBuf, "fail hang case-timeout # the case did not complete within "+caseTimeout().String()+": an operation of the code under test never returned")
		t.caseBuf = append(t.caseBuf, "end "+t.caseID)
		for _, l := range t.caseBuf {
			t.w.WriteString(l)
			t.w.WriteByte('\n')
		}
		t.w.Flush()
		t.f.Close()
		os.Exit(0)
	})
	t.caseID = id
	t.caseBuf = t.caseBuf[:0]
	t.tags = map[string]bool{}
	t.nontriv = false
	t.ops = 0
	t.caseBuf = append(t.caseBuf, strings.TrimSpace("case "+id+" "+family+" "+strings.Join(cfg, " ")))
}

func (t *Writer) Op(l Line) {
	t.mu.Lock()
	t.ops++
	t.caseBuf = append(t.caseBuf, "op "+l.String())
	t.mu.Unlock()
}

func (t *Writer) Obs(l Line) {
	t.mu.Lock()
	t.caseBuf = append(t.caseBuf, "obs "+l.String())
	t.mu.Unlock()
}

// Fail records a direct-oracle failure: the property itself is violated on
// the implementation at `site` with canonical `sig`.
func (t *Writer) Fail(site, sig, detail string) {
	t.mu.Lock()
	defer t.mu.Unlock()
	t.Stats.Fails++
	t.caseBuf = append(t.caseBuf, "fail "+site+" "+sig+" # "+strings.ReplaceAll(detail, "\n", " "))
}

// Tag marks the current case as having reached a non-trivial branch class.
func (t *Writer) Tag(tag string) {
	t.mu.Lock()
	t.tags[tag] = true
	t.nontriv = true
	t.mu.Unlock()
}

// Note counts a branch class for the statistics without making the case count as non-trivial.
func (t *Writer) Note(tag string) {
	t.mu.Lock()
	t.tags[tag] = true
	t.mu.Unlock()
}

// Hist counts one occurrence in the input-distribution histogram.
func (t *Writer) Hist(key string) {
	t.mu.Lock()
	t.Stats.Hist[key]++
	t.mu.Unlock()
}

func (t *Writer) End() {
	t.mu.Lock()
	defer t.mu.Unlock()
	if t.wd != nil {
		t.wd.Stop()
		t.wd = nil
	}
	t.caseBuf = append(t.caseBuf, "end "+t.caseID)
	h := fnv.New64a()
	for _, l := range t.caseBuf[1 : len(t.caseBuf)-1] {
		if strings.HasPrefix(l, "op ") {
			io.WriteString(h, l)
		}
	}
	for _, l := range t.caseBuf {
		t.w.WriteString(l)
		t.w.WriteByte('\n')
	}
	s := t.Stats
	s.Cases++
	s.Ops += t.ops
	for k := range t.tags {
		s.Tags[k]++
	}
	hv := h.Sum64()
	if t.nontriv && !s.seen[hv] {
		s.seen[hv] = true
		s.DistinctNontriv++
	}
	if len(s.Samples) < 3 {
		smp := strings.Join(t.caseBuf, "\n")
		if len(smp) > 700 {
			smp = smp[:700] + " ..."
		}
		s.Samples = append(s.Samples, smp)
	}
}

func (t *Writer) Close(statsPath string) {
	t.mu.Lock()
	defer t.mu.Unlock()
	if t.wd != nil {
		t.wd.Stop()
	}
	t.w.Flush()
	t.f.Close()
	if statsPath != "" {
		b, _ := json.MarshalIndent(t.Stats, "", " ")
		os.WriteFile(statsPath, b, 0o644)
	}
}

// ---------------------------------------------------------------- reader

type Case struct {
	ID     string
	Family string
	Cfg    map[string]string
	Ops    []Line
}

// ReadCases parses the `case` / `op` lines of a trace (other tags ignored).
func ReadCases(path string) []Case {
	f, err := os.Open(path)
	if err != nil {
		panic(err)
	}
	defer f.Close()
	var out []Case
	var cur *Case
	sc := bufio.NewScanner(f)
	sc.Buffer(make([]byte, 1<<20), 1<<28)
	for sc.Scan() {
		fs := strings.Fields(sc.Text())
		if len(fs) == 0 {
			continue
		}
		switch fs[0] {
		case "case":
			c := Case{Cfg: map[string]string{}}
			if len(fs) > 1 {
				c.ID = fs[1]
			}
			if len(fs) > 2 {
				c.Family = fs[2]
			}
			for _, kv := range fs[3:] {
				if i := strings.IndexByte(kv, '='); i > 0 {
					c.Cfg[kv[:i]] = kv[i+1:]
				}
			}
			out = append(out, c)
			cur = &out[len(out)-1]
		case "op":
			if cur != nil && len(fs) > 1 {
				cur.Ops = append(cur.Ops, Line{Name: fs[1], Args: fs[2:]})
			}
		}
	}
	return out
}

func CfgList(m map[string]string) []string {
	var ks []string
	for k := range m {
		ks = append(ks, k)
	}
	sort.Strings(ks)
	var out []string
	for _, k := range ks {
		out = append(out, k+"="+m[k])
	}
	return out
}

func CfgInt(m map[string]string, k string, def int) int {
	if v, ok := m[k]; ok {
		n, err := strconv.Atoi(v)
		if err == nil {
			return n
		}
	}
	return def
}

// Guard runs f and reports whether it panicked.
func Guard(f func()) (panicked bool, msg string) {
	defer func() {
		if r := recover(); r != nil {
			panicked = true
			msg = fmt.Sprint(r)
		}
	}()
	f()
	return
}
