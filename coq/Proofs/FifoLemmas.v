(* Lemma library for the Z-indexed list primitives of Spec/Fifo.v
   (zlen / ztake / zdrop / znth).  Lengths are given unconditionally with
   Z.min / Z.max so that [zl] (rewrite all lengths, then lia) decides side
   conditions. *)
From Coq Require Import Lia ZArith List.
From GV Require Import Spec.Fifo.
Import ListNotations.
Open Scope Z_scope.

Ltac splits := repeat match goal with |- _ /\ _ => split end.

Section Lemmas.
Context {A : Type}.
Implicit Types l a b : list A.

Lemma zlen_nonneg l : 0 <= zlen l.
Proof. unfold zlen. lia. Qed.

Lemma zlen_nil : zlen (@nil A) = 0.
Proof. reflexivity. Qed.

Lemma zlen_cons x l : zlen (x :: l) = 1 + zlen l.
Proof. unfold zlen. cbn [List.length]. lia. Qed.

Lemma zlen_app a b : zlen (a ++ b) = zlen a + zlen b.
Proof. unfold zlen. rewrite app_length. lia. Qed.

Lemma zlen_zero_nil l : zlen l = 0 -> l = [].
Proof. destruct l; [reflexivity|]. rewrite zlen_cons. pose proof (zlen_nonneg l). lia. Qed.

Lemma zlen_ztake n l : zlen (ztake n l) = Z.min (Z.max 0 n) (zlen l).
Proof. unfold zlen, ztake. rewrite firstn_length. lia. Qed.

Lemma zlen_zdrop n l : zlen (zdrop n l) = zlen l - Z.min (Z.max 0 n) (zlen l).
Proof. unfold zlen, zdrop. rewrite skipn_length. lia. Qed.

Lemma ztake_nonpos n l : n <= 0 -> ztake n l = [].
Proof. intros H. unfold ztake. replace (Z.to_nat n) with 0%nat by lia. reflexivity. Qed.

Lemma zdrop_nonpos n l : n <= 0 -> zdrop n l = l.
Proof. intros H. unfold zdrop. replace (Z.to_nat n) with 0%nat by lia. reflexivity. Qed.

Lemma ztake_all n l : zlen l <= n -> ztake n l = l.
Proof. intros H. unfold ztake, zlen in *. apply firstn_all2. lia. Qed.

Lemma zdrop_all n l : zlen l <= n -> zdrop n l = [].
Proof. intros H. unfold zdrop, zlen in *. apply skipn_all2. lia. Qed.

Lemma ztake_nil n : ztake n (@nil A) = [].
Proof. unfold ztake. apply firstn_nil. Qed.

Lemma zdrop_nil n : zdrop n (@nil A) = [].
Proof. unfold zdrop. apply skipn_nil. Qed.

Lemma ztake_zdrop_id n l : ztake n l ++ zdrop n l = l.
Proof. unfold ztake, zdrop. apply firstn_skipn. Qed.

Lemma ztake_app_le n a b : n <= zlen a -> ztake n (a ++ b) = ztake n a.
Proof.
  intros H. unfold ztake, zlen in *. rewrite firstn_app.
  replace (Z.to_nat n - List.length a)%nat with 0%nat by lia.
  cbn [firstn]. apply app_nil_r.
Qed.

Lemma ztake_app_ge n a b : zlen a <= n -> ztake n (a ++ b) = a ++ ztake (n - zlen a) b.
Proof.
  intros H. unfold ztake, zlen in *. rewrite firstn_app.
  rewrite firstn_all2 by lia. f_equal. f_equal. lia.
Qed.

Lemma zdrop_app_le n a b : n <= zlen a -> zdrop n (a ++ b) = zdrop n a ++ b.
Proof.
  intros H. unfold zdrop, zlen in *. rewrite skipn_app.
  replace (Z.to_nat n - List.length a)%nat with 0%nat by lia. reflexivity.
Qed.

Lemma zdrop_app_ge n a b : zlen a <= n -> zdrop n (a ++ b) = zdrop (n - zlen a) b.
Proof.
  intros H. unfold zdrop, zlen in *. rewrite skipn_app.
  rewrite skipn_all2 by lia. cbn [app]. f_equal. lia.
Qed.

Lemma ztake_app_exact a b : ztake (zlen a) (a ++ b) = a.
Proof. rewrite ztake_app_le by lia. apply ztake_all. lia. Qed.

Lemma zdrop_app_exact a b : zdrop (zlen a) (a ++ b) = b.
Proof. rewrite zdrop_app_ge by lia. apply zdrop_nonpos. lia. Qed.

Lemma skipn_skipn' (x y : nat) l : skipn x (skipn y l) = skipn (y + x) l.
Proof.
  revert l. induction y as [|y IH]; intros l; [reflexivity|].
  destruct l as [|h t]; [rewrite !skipn_nil; reflexivity|]. cbn [skipn Nat.add]. apply IH.
Qed.

Lemma zdrop_zdrop n m l : 0 <= n -> 0 <= m -> zdrop n (zdrop m l) = zdrop (m + n) l.
Proof.
  intros Hn Hm. unfold zdrop. rewrite skipn_skipn'. f_equal. lia.
Qed.

Lemma ztake_ztake n m l : ztake n (ztake m l) = ztake (Z.min n m) l.
Proof.
  unfold ztake. rewrite firstn_firstn. f_equal. lia.
Qed.

(* dropping inside a prefix *)
Lemma zdrop_ztake n m l : 0 <= n -> zdrop n (ztake m l) = ztake (m - n) (zdrop n l).
Proof.
  intros Hn. unfold zdrop, ztake.
  destruct (Z_le_gt_dec n m) as [Hle|Hgt].
  - rewrite skipn_firstn_comm. f_equal. lia.
  - replace (Z.to_nat (m - n)) with 0%nat by lia. cbn [firstn].
    apply skipn_all2. rewrite firstn_length. lia.
Qed.

(* a prefix of a suffix is a suffix of a prefix *)
Lemma ztake_zdrop n m l : 0 <= n -> 0 <= m -> ztake n (zdrop m l) = zdrop m (ztake (m + n) l).
Proof.
  intros Hn Hm. rewrite zdrop_ztake by lia. f_equal. lia.
Qed.

(* two consecutive prefixes *)
Lemma ztake_add n m l : 0 <= n -> 0 <= m -> ztake n l ++ ztake m (zdrop n l) = ztake (n + m) l.
Proof.
  intros Hn Hm.
  rewrite <- (ztake_zdrop_id n l) at 3.
  destruct (Z_le_gt_dec n (zlen l)) as [Hle|Hgt].
  - rewrite ztake_app_ge by (rewrite zlen_ztake; lia).
    rewrite zlen_ztake. f_equal. f_equal. lia.
  - rewrite (zdrop_all n l) by lia. rewrite ztake_nil, !app_nil_r.
    rewrite ztake_ztake. rewrite !ztake_all; trivial; lia.
Qed.

Lemma zdrop_add n m l : 0 <= n -> 0 <= m -> zdrop m (zdrop n l) = zdrop (n + m) l.
Proof. intros. apply zdrop_zdrop; lia. Qed.

Lemma ztake_S_zdrop (d : A) i l :
  0 <= i < zlen l -> ztake 1 (zdrop i l) = [nth (Z.to_nat i) l d].
Proof.
  intros H. unfold ztake, zdrop, zlen in *.
  change (Z.to_nat 1) with 1%nat.
  rewrite <- (firstn_skipn (Z.to_nat i) l) at 2.
  assert (Hl : List.length (firstn (Z.to_nat i) l) = Z.to_nat i) by (rewrite firstn_length; lia).
  rewrite app_nth2 by lia. rewrite Hl, Nat.sub_diag.
  destruct (skipn (Z.to_nat i) l) eqn:E.
  - exfalso. pose proof (skipn_length (Z.to_nat i) l) as Hs. rewrite E in Hs. cbn in Hs. lia.
  - reflexivity.
Qed.

Lemma zlen_repeat (x : A) n : zlen (repeat x (Z.to_nat n)) = Z.max 0 n.
Proof. unfold zlen. rewrite repeat_length. lia. Qed.

End Lemmas.

Lemma znth_zdrop i (l : list Z) : 0 <= i < zlen l -> ztake 1 (zdrop i l) = [znth i l].
Proof. intros H. unfold znth. apply ztake_S_zdrop. exact H. Qed.

Lemma ztake_1_cons (x : Z) l : ztake 1 (x :: l) = [x].
Proof. reflexivity. Qed.

Lemma zdrop_1_cons (x : Z) l : zdrop 1 (x :: l) = l.
Proof. reflexivity. Qed.

(* rewrite every length, then linear arithmetic *)
Ltac zlen_norm :=
  repeat first [ rewrite zlen_app | rewrite zlen_ztake | rewrite zlen_zdrop | rewrite zlen_nil
               | rewrite zlen_cons | rewrite zlen_repeat ].
Ltac zlen_norm_in H :=
  repeat first [ rewrite zlen_app in H | rewrite zlen_ztake in H | rewrite zlen_zdrop in H
               | rewrite zlen_nil in H | rewrite zlen_cons in H | rewrite zlen_repeat in H ].
Ltac zl := zlen_norm; lia.
