(* C18 -- an I/O failure on one connection stays on that connection.
   Statements only; proofs in Proofs/LoopFault.v (and the files of C01/C02/C04/C07, whose
   theorems quantify over every input stream, fault results included). *)
From GV Require Import Lib.Trace Model.Loop Spec.LoopSpec Proofs.LoopFault.
Open Scope Z_scope.

Theorem C18_fault_handling : forall i t, run_history i = Some t -> fault_ok t = true.
Proof. exact fault_holds. Qed.
Print Assumptions C18_fault_handling.

(* the loop keeps running: the model's run ends only when the input ends or the
   environment leaves its contract -- never because the recursion bound was too small *)
Theorem C18_engine_survives : forall i t, run_history i = Some t -> fuel_ok t = true.
Proof. exact engine_survives. Qed.
Print Assumptions C18_engine_survives.
