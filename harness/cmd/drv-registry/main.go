// drv-registry drives the event-loop connection registry (connMatrix: conn_map.go
// by default, conn_matrix.go under -tags gc_opt) for property C14 and writes the
// trace consumed by the extracted model (family "registry").
//
// op lines (inputs of the model)              obs lines (predicted by the model)
//
//	init <variant> <ROW> <COL>                  -
//	add <id> <fd>                               -            (obs add panic on a Go panic)
//	del <id>                                    -            (obs del panic on a Go panic)
//	get <fd>                                    obs get <id | -1>
//	count                                       obs count <n>
//	iter <m> <k> <lim>                          obs iter <visited ids, sorted>
//	     visitor: delConn the visited conn iff m>0 && fd mod m == k (m=1,k=0: shutdown
//	     pattern, m=0: read-only); return false once lim conns were visited (lim<0: never)
//	pos <id>                                    obs pos <row> <col> <fd>   (the conn's own GFD)
//
// The direct oracle is a Go map fd -> identity.
package main

import (
	"flag"
	"fmt"
	"sort"

	gnet "github.com/panjf2000/gnet/v2"

	"verifharness/tr"
)

var w *tr.Writer

const variant = gnet.VerifRegistryVariant

type state struct {
	r           *gnet.VerifRegistry
	fullAudit   bool        // the next audit looks up every descriptor ever used
	ref         map[int]int // fd -> identity of the live connection (the spec)
	fdOf        map[int]int // identity -> fd, every connection object ever created
	ever        []int       // every fd ever used, in order of first use
	everIn      map[int]bool
	order       []int  // identities in creation order (live and dead)
	hist        string // "clean", "partial-iterate" (finding class), "ill-formed" (oracle off)
	failed      bool
	dead        bool // a Go panic happened: the case is over
	bulk        bool
	muts        int
	lastDelFd   int
	haveLastDel bool
}

func newState() *state {
	return &state{r: gnet.NewVerifRegistry(), ref: map[int]int{}, fdOf: map[int]int{}, everIn: map[int]bool{}, hist: "clean"}
}

func (s *state) fail(site, kind, detail string) {
	if s.hist == "ill-formed" || s.failed {
		return
	}
	s.failed = true
	w.Fail(site, fmt.Sprintf("variant=%s hist=%s kind=%s", variant, s.hist, kind), detail)
}

func floorMod(a, m int) int {
	r := a % m
	if r < 0 {
		r += m
	}
	return r
}

// audit evaluates the property on the implementation without emitting ops:
// every descriptor ever used (a strided sample when there are many) must map to
// the reference map's connection, and the count must be the map's size.
func (s *state) audit() {
	if s.hist == "ill-formed" || s.failed || s.dead {
		return
	}
	if s.bulk { // bulk phase of a large case: audit every 4096th mutation
		if s.muts++; s.muts%4096 != 0 {
			return
		}
	}
	var bad string
	p, _ := tr.Guard(func() {
		if n := s.r.Count(); n != len(s.ref) {
			s.fail("loadCount", "count", fmt.Sprintf("loadCount=%d live=%d", n, len(s.ref)))
			return
		}
		step := 1
		if len(s.ever) > 3000 && !s.fullAudit {
			step = len(s.ever)/1500 + 1
		}
		for i := 0; i < len(s.ever); i += step {
			fd := s.ever[i]
			got := s.r.Get(fd)
			want, ok := s.ref[fd]
			if !ok {
				want = -1
			}
			if got != want {
				kind := "wrong-conn"
				if want == -1 {
					kind = "ghost"
				} else if got == -1 {
					kind = "missing"
				}
				bad = kind
				s.fail("getConn", kind, fmt.Sprintf("fd=%d got=%d want=%d", fd, got, want))
				return
			}
		}
	})
	_ = bad
	if p {
		s.fail("getConn", "panic", "lookup panicked")
	}
}

func (s *state) noteFd(fd int) {
	if !s.everIn[fd] {
		s.everIn[fd] = true
		s.ever = append(s.ever, fd)
	}
}

// exec runs one op line on the implementation, emits it and its observables,
// updates the reference map and evaluates the oracle.
func (s *state) exec(op tr.Line) {
	if s.dead {
		return
	}
	switch op.Name {
	case "add":
		id, fd := op.Int(0), op.Int(1)
		w.Op(tr.L("add", tr.I(id), tr.I(fd)))
		s.noteFd(fd)
		if _, dup := s.ref[fd]; dup {
			s.hist = "ill-formed" // registering a descriptor that is still registered
			w.Tag("dup-add")
		}
		if ofd, seen := s.fdOf[id]; seen && s.refHas(ofd) && s.ref[ofd] == id {
			s.hist = "ill-formed" // identity of a live connection object reused
		}
		if len(s.ref) >= gnet.VerifRegistryRowMax*gnet.VerifRegistryColMax {
			s.hist = "ill-formed" // beyond capacity addConn drops silently (stated side condition)
		}
		if _, seen := s.fdOf[id]; !seen {
			s.order = append(s.order, id)
		}
		p, _ := tr.Guard(func() { s.r.Add(id, fd) })
		if p {
			w.Obs(tr.L("add", "panic"))
			s.fail("addConn", "panic", "addConn panicked")
			s.dead = true
			return
		}
		s.fdOf[id] = fd
		s.ref[fd] = id
		if s.haveLastDel && s.lastDelFd == fd {
			w.Tag("reregister-removed-fd")
		}
		s.audit()
	case "del":
		id := op.Int(0)
		w.Op(tr.L("del", tr.I(id)))
		fd, known := s.fdOf[id]
		if !known || s.ref[fd] != id || !s.refHas(fd) {
			s.hist = "ill-formed" // removing a connection that is not registered
			w.Tag("stale-del")
		}
		p, _ := tr.Guard(func() { s.r.Del(id) })
		if p {
			w.Obs(tr.L("del", "panic"))
			s.fail("delConn", "panic", "delConn panicked")
			s.dead = true
			return
		}
		if known && s.refHas(fd) && s.ref[fd] == id {
			delete(s.ref, fd)
			s.lastDelFd, s.haveLastDel = fd, true
		}
		s.audit()
	case "get":
		fd := op.Int(0)
		w.Op(tr.L("get", tr.I(fd)))
		var got int
		p, _ := tr.Guard(func() { got = s.r.Get(fd) })
		if p {
			w.Obs(tr.L("get", "panic"))
			s.fail("getConn", "panic", "getConn panicked")
			s.dead = true
			return
		}
		w.Obs(tr.L("get", tr.I(got)))
		want := -1
		if s.refHas(fd) {
			want = s.ref[fd]
		}
		if got != want {
			kind := "wrong-conn"
			if want == -1 {
				kind = "ghost"
			} else if got == -1 {
				kind = "missing"
			}
			s.fail("getConn", kind, fmt.Sprintf("fd=%d got=%d want=%d", fd, got, want))
		}
	case "count":
		w.Op(tr.L("count"))
		n := s.r.Count()
		w.Obs(tr.L("count", tr.I(n)))
		if n != len(s.ref) {
			s.fail("loadCount", "count", fmt.Sprintf("loadCount=%d live=%d", n, len(s.ref)))
		}
	case "iter":
		m, k, lim := op.Int(0), op.Int(1), op.Int(2)
		if variant == "map" {
			lim = -1 // Go's map iteration order is unspecified: an early stop has no defined visit set
		}
		w.Op(tr.L("iter", tr.I(m), tr.I(k), tr.I(lim)))
		var visited []int
		var deleted []int
		p, _ := tr.Guard(func() {
			s.r.Iterate(func(id, fd int) (bool, bool) {
				visited = append(visited, id)
				del := m > 0 && floorMod(fd, m) == k
				if del {
					deleted = append(deleted, id)
				}
				return del, !(lim >= 0 && len(visited) >= lim)
			})
		})
		if p {
			w.Obs(tr.L("iter", "panic"))
			s.fail("iterate", "panic", "iterate panicked")
			s.dead = true
			return
		}
		sort.Ints(visited)
		vs := make([]string, len(visited))
		for i, v := range visited {
			vs[i] = tr.I(v)
		}
		w.Obs(tr.L("iter", vs...))
		// oracle: every live connection exactly once (when the visitor never stops)
		before := len(s.ref)
		if lim < 0 {
			want := make([]int, 0, len(s.ref))
			for _, id := range s.ref {
				want = append(want, id)
			}
			sort.Ints(want)
			ok := len(want) == len(visited)
			for i := 0; ok && i < len(want); i++ {
				ok = want[i] == visited[i]
			}
			if !ok {
				s.fail("iterate", "visit", fmt.Sprintf("visited %d connections, %d live; first ids %v vs %v", len(visited), len(want), head(visited), head(want)))
			}
		}
		for _, id := range deleted {
			if fd, ok := s.fdOf[id]; ok && s.refHas(fd) && s.ref[fd] == id {
				delete(s.ref, fd)
			} else {
				s.hist = "ill-formed"
			}
		}
		if len(deleted) > 0 && len(deleted) < before && s.hist == "clean" {
			s.hist = "partial-iterate" // the visitor removed some, not all, connections
			w.Tag("iterate-delete-some")
		}
		if len(deleted) == before && before > 0 {
			w.Tag("iterate-delete-all")
		}
		s.audit()
	case "pos":
		id := op.Int(0)
		w.Op(tr.L("pos", tr.I(id)))
		var r, c, fd int
		p, _ := tr.Guard(func() { r, c, fd = s.r.Pos(id) })
		if p {
			w.Obs(tr.L("pos", "panic"))
			s.dead = true
			return
		}
		w.Obs(tr.L("pos", tr.I(r), tr.I(c), tr.I(fd)))
	}
}

func (s *state) refHas(fd int) bool { _, ok := s.ref[fd]; return ok }

func head(xs []int) []int {
	if len(xs) > 8 {
		return xs[:8]
	}
	return xs
}

func begin(id string) *state {
	w.Case(id, "registry", "variant="+variant)
	w.Op(tr.L("init", variant, tr.I(gnet.VerifRegistryRowMax), tr.I(gnet.VerifRegistryColMax)))
	return newState()
}

func replay(path string) {
	for _, c := range tr.ReadCases(path) {
		s := begin(c.ID)
		w.Tag("replay")
		for _, op := range c.Ops {
			if op.Name == "init" {
				continue // the variant is the one this binary was built with
			}
			s.exec(op)
		}
		w.End()
	}
}

// ---------------------------------------------------------------- generator

type gen struct {
	s      *state
	rnd    *tr.Rand
	nextID int
	fdBase int
	fdSpan int
}

func (g *gen) liveIDs() []int {
	ids := make([]int, 0, len(g.s.ref))
	for _, id := range g.s.order {
		if fd, ok := g.s.fdOf[id]; ok && g.s.refHas(fd) && g.s.ref[fd] == id {
			ids = append(ids, id)
		}
	}
	return ids
}

func (g *gen) freshFd() int {
	for tries := 0; ; tries++ {
		var fd int
		switch {
		case g.rnd.Chance(3):
			fd = -1 - g.rnd.Intn(50) // the registry does not care about the sign
		case g.rnd.Chance(3):
			fd = 1<<40 + g.rnd.Intn(1000)
		case g.rnd.Chance(5):
			fd = 65530 + g.rnd.Intn(20) // numbers around the column width
		default:
			fd = g.fdBase + g.rnd.Intn(g.fdSpan+tries)
		}
		if !g.s.refHas(fd) {
			return fd
		}
	}
}

func (g *gen) add(fd int) {
	g.nextID++
	g.s.exec(tr.L("add", tr.I(g.nextID), tr.I(fd)))
	w.Hist("op-add")
}

// victim picks a live connection: first / middle / last by position (gc_opt:
// the (row,column) of its GFD; map: creation order) or a random one.
func (g *gen) victim() (int, string) { return g.victimShape(-1) }

func (g *gen) victimShape(shape int) (int, string) {
	ids := g.liveIDs()
	if len(ids) == 0 {
		return 0, ""
	}
	if variant == "gcopt" {
		keys := make(map[int]int, len(ids))
		for _, id := range ids {
			r, c, _ := g.s.r.Pos(id)
			keys[id] = r*gnet.VerifRegistryColMax + c
		}
		if len(ids) <= 2000 {
			sort.Slice(ids, func(i, j int) bool { return keys[ids[i]] < keys[ids[j]] })
		} else { // large: only the extremes need to be exact
			lo, hi := 0, 0
			for i, id := range ids {
				if keys[id] < keys[ids[lo]] {
					lo = i
				}
				if keys[id] > keys[ids[hi]] {
					hi = i
				}
			}
			ids[0], ids[lo] = ids[lo], ids[0]
			if hi == 0 {
				hi = lo
			}
			ids[len(ids)-1], ids[hi] = ids[hi], ids[len(ids)-1]
		}
	}
	if shape < 0 {
		shape = g.rnd.Intn(8)
	}
	switch shape {
	case 0:
		return ids[0], "del-first"
	case 1:
		return ids[len(ids)-1], "del-last"
	case 2:
		return ids[len(ids)/2], "del-middle"
	default:
		return ids[g.rnd.Intn(len(ids))], "del-random"
	}
}

func (g *gen) del() { g.delShape(-1) }

// toPopulation registers fresh descriptors / removes random connections until exactly n are live.
func (g *gen) toPopulation(n int) {
	if d := len(g.s.ref) - n; d > 1000 || d < -1000 {
		return // too far: not worth a quadratic walk
	}
	for len(g.s.ref) < n && !g.s.failed && !g.s.dead {
		g.add(g.freshFd())
	}
	for len(g.s.ref) > n && !g.s.failed && !g.s.dead {
		g.delShape(3 + g.rnd.Intn(2)) // random
	}
}

// aroundBoundary exercises removals and registrations with the population at
// and next to a multiple of the column width (last entry in the last column,
// first entry of a fresh row, row release and re-allocation).
func (g *gen) aroundBoundary(b int) {
	for _, target := range []int{b + 1, b, b - 1, b, b + 2, b} {
		g.toPopulation(target)
		g.delShape(0) // first
		g.add(g.freshFd())
		g.add(g.freshFd())
		g.probeEnds()
		g.toPopulation(target)
		g.delShape(2) // middle
		if g.s.haveLastDel && !g.s.refHas(g.s.lastDelFd) {
			g.add(g.s.lastDelFd)
		}
		g.add(g.freshFd())
		g.probeEnds()
		g.toPopulation(target)
		g.delShape(1) // last
		g.add(g.freshFd())
		g.s.exec(tr.L("count"))
		g.probeEnds()
		w.Tag("at-row-boundary")
	}
}

// probeEnds looks up the oldest and the newest live connections (the entries next to a row boundary of the
// matrix when the population is near a multiple of the column width): each lookup is judged by the reference map
func (g *gen) probeEnds() {
	// every descriptor ever used is looked up (not a sample): a clobbered entry may be anybody's
	g.s.fullAudit = true
	g.s.audit()
	g.s.fullAudit = false
	ids := g.liveIDs()
	for k := 0; k < 8 && k < len(ids); k++ {
		g.s.exec(tr.L("get", tr.I(g.s.fdOf[ids[len(ids)-1-k]])))
		g.s.exec(tr.L("get", tr.I(g.s.fdOf[ids[k]])))
	}
}

func (g *gen) delShape(shape int) {
	id, cls := g.victimShape(shape)
	if cls == "" {
		return
	}
	g.s.exec(tr.L("del", tr.I(id)))
	w.Tag(cls)
	w.Hist("op-" + cls)
}

// checkpoint emits the observables: getConn for every descriptor ever used (a
// sample when large), loadCount, and each live connection's stored (row,column).
func (g *gen) checkpoint(full bool) {
	s := g.s
	if s.dead {
		return
	}
	s.exec(tr.L("count"))
	fds := s.ever
	step := 1
	if !full && len(fds) > 60 {
		step = len(fds)/40 + 1
	}
	if len(fds) > 600 {
		step = len(fds)/300 + 1
	}
	for i := 0; i < len(fds); i += step {
		s.exec(tr.L("get", tr.I(fds[i])))
		w.Hist("op-get")
	}
	if step > 1 && len(fds) > 0 { // always the extremes and the row boundaries
		for _, i := range []int{0, len(fds) - 1, 65535, 65536, 65537, 131071, 131072} {
			if i >= 0 && i < len(fds) {
				s.exec(tr.L("get", tr.I(fds[i])))
			}
		}
	}
	s.exec(tr.L("get", tr.I(g.fdBase-7))) // never used
	ids := g.liveIDs()
	step = 1
	if !full && len(ids) > 60 {
		step = len(ids)/40 + 1
	}
	if len(ids) > 600 {
		step = len(ids)/300 + 1
	}
	for i := 0; i < len(ids); i += step {
		s.exec(tr.L("pos", tr.I(ids[i])))
	}
	if step > 1 && len(ids) > 0 {
		s.exec(tr.L("pos", tr.I(ids[len(ids)-1])))
	}
}

func (g *gen) iter(m, k, lim int) {
	g.s.exec(tr.L("iter", tr.I(m), tr.I(k), tr.I(lim)))
	w.Hist(fmt.Sprintf("op-iter-m%d", min(m, 2)))
}

func min(a, b int) int {
	if a < b {
		return a
	}
	return b
}

// randomCase: a random walk towards a target population with deletions,
// re-registrations, iterations and checkpoints.
func (g *gen) randomCase(target, nops int, allowPartial, illFormedEnd bool) {
	s := g.s
	iters := 0
	for i := 0; i < nops && !s.failed && !s.dead; i++ {
		pop := len(s.ref)
		x := g.rnd.Intn(100)
		switch {
		case x < 4 && s.haveLastDel && !s.refHas(s.lastDelFd):
			g.add(s.lastDelFd) // re-register the descriptor number that was just removed
		case x < 50 && pop < target || pop == 0 && x < 80:
			g.add(g.freshFd())
		case x < 88:
			g.del()
		case x < 92 && iters < 3:
			iters++
			switch y := g.rnd.Intn(10); {
			case y < 4:
				g.iter(0, 0, -1)
			case y < 7:
				g.iter(1, 0, -1)
				w.Tag("shutdown-then-reuse")
				target = g.rnd.Intn(target + 1)
			case allowPartial && y < 9:
				m := g.rnd.Range(2, 5)
				g.iter(m, g.rnd.Intn(m), -1)
			case allowPartial && variant == "gcopt" && pop > 0:
				g.iter(g.rnd.Intn(2), 0, g.rnd.Intn(pop+1)) // early stop: the visit order is row-major only under gc_opt
				w.Tag("iterate-early-stop")
			default:
				g.iter(0, 0, -1)
			}
		case x < 95:
			g.checkpoint(false)
		default:
			if pop < target {
				g.add(g.freshFd())
			} else {
				g.del()
			}
		}
	}
	if illFormedEnd && !s.failed && !s.dead && len(s.ref) > 0 {
		ids := g.liveIDs()
		switch g.rnd.Intn(3) {
		case 0: // register a descriptor that is still registered
			g.add(s.fdOf[ids[g.rnd.Intn(len(ids))]])
		case 1: // remove a connection twice
			id := ids[g.rnd.Intn(len(ids))]
			s.exec(tr.L("del", tr.I(id)))
			s.exec(tr.L("del", tr.I(id)))
		default: // remove a connection that was replaced by a duplicate registration
			id := ids[g.rnd.Intn(len(ids))]
			g.add(s.fdOf[id])
			s.exec(tr.L("del", tr.I(id)))
		}
		w.Tag("ill-formed-tail")
	}
	g.checkpoint(true)
}

// bigCase crosses the matrix row boundaries: n registrations, removal of
// first / middle / last / boundary entries, read-only iteration, shutdown
// iteration, reuse.
func (g *gen) bigCase(n int, dels int) {
	s := g.s
	s.bulk = true
	for i := 0; i < n; i++ {
		g.add(g.fdBase + i)
	}
	s.bulk = false
	s.audit()
	w.Tag(fmt.Sprintf("population-%dk", n/1024))
	g.checkpoint(false)
	ids := g.liveIDs()
	pick := []int{0, 1, len(ids) - 1, len(ids) - 2, len(ids) / 2, 65535, 65536, 65537, 131071, 131072}
	for _, i := range pick {
		if i >= 0 && i < len(ids) && !s.failed {
			s.exec(tr.L("del", tr.I(ids[i])))
			w.Tag("del-at-boundary")
		}
	}
	for i := 0; i < dels && !s.failed; i++ {
		g.del()
		if g.rnd.Chance(30) {
			if g.rnd.Chance(50) && s.haveLastDel && !s.refHas(s.lastDelFd) {
				g.add(s.lastDelFd)
			} else {
				g.add(g.freshFd())
			}
		}
	}
	g.checkpoint(false)
	// shrink below the row boundary again and grow back over it
	over := len(s.ref) % gnet.VerifRegistryColMax
	if over < 200 && len(s.ref) > gnet.VerifRegistryColMax {
		for i := 0; i < over+3 && !s.failed; i++ {
			g.del()
		}
		w.Tag("row-released")
		g.checkpoint(false)
		for i := 0; i < 8; i++ {
			g.add(g.freshFd())
		}
		g.checkpoint(false)
	}
	if !s.failed && !s.dead {
		b := (len(s.ref) + gnet.VerifRegistryColMax/2) / gnet.VerifRegistryColMax * gnet.VerifRegistryColMax // nearest row boundary
		if b == 0 {
			b = gnet.VerifRegistryColMax
		}
		g.aroundBoundary(b)
		g.checkpoint(false)
	}
	// the shutdown pattern (visit everything, remove every visited connection) with the population
	// spread over more than one row
	g.toPopulation((len(s.ref)/gnet.VerifRegistryColMax)*gnet.VerifRegistryColMax + g.rnd.Range(1, 40))
	w.Tag("shutdown-across-rows")
	g.iter(0, 0, -1)
	g.iter(1, 0, -1)
	g.checkpoint(false)
	for i := 0; i < 50; i++ {
		g.add(g.fdBase + 7*i)
	}
	g.del()
	g.checkpoint(true)
}

// burstDrain: a burst of n registrations followed by a complete drain, one removal at a time (any
// shape), with a checkpoint every few hundred removals and around every power-of-two fraction of
// the peak: a registry that reorganises itself when it grows or shrinks must stay a faithful map
func (g *gen) burstDrain(n int) {
	s := g.s
	s.bulk = true
	for i := 0; i < n; i++ {
		g.add(g.fdBase + i)
	}
	s.bulk = false
	s.audit()
	w.Tag("burst-drain")
	w.Hist(fmt.Sprintf("burst-%dk", n/1024))
	g.checkpoint(false)
	marks := map[int]bool{}
	for f := n / 2; f >= 1; f /= 2 {
		marks[f], marks[f-1], marks[f+1] = true, true, true
	}
	for k := 1; len(s.ref) > 0 && !s.failed && !s.dead; k++ {
		fd, _ := g.victim()
		s.exec(tr.L("del", tr.I(fd)))
		s.exec(tr.L("get", tr.I(fd))) // the removed descriptor is gone at once
		if marks[len(s.ref)] || k%401 == 0 {
			g.checkpoint(false)
		}
	}
	g.checkpoint(false)
	g.iter(0, 0, -1)
	for i := 0; i < 20; i++ {
		g.add(g.freshFd())
	}
	g.checkpoint(true)
}

func main() {
	seed := flag.Uint64("seed", 1, "")
	tier := flag.String("tier", "quick", "")
	out := flag.String("out", "trace.txt", "")
	stats := flag.String("stats", "", "")
	rep := flag.String("replay", "", "")
	flag.Parse()
	w = tr.NewWriter(*out)
	defer w.Close(*stats)
	if *rep != "" {
		replay(*rep)
		return
	}
	rnd := tr.NewRand(*seed)
	cid := 0
	mk := func(tag string) *gen {
		cid++
		s := begin(fmt.Sprintf("%s-%s%d", variant, tag, cid))
		w.Tag(tag)
		return &gen{s: s, rnd: rnd, fdBase: 3 + rnd.Intn(20), fdSpan: 400}
	}
	thorough := *tier == "thorough"
	nSmall, nMid := 160, 60
	if thorough {
		nSmall, nMid = 3000, 600
	}
	// tiny populations, many deletions: every first/middle/last shape
	for i := 0; i < nSmall; i++ {
		g := mk("small")
		g.fdSpan = 12
		g.randomCase(rnd.Range(0, 8), rnd.Range(5, 60), i%5 == 0, i%11 == 3)
		w.End()
	}
	// populations up to 300
	for i := 0; i < nMid; i++ {
		g := mk("mid")
		t := rnd.Range(10, 300)
		g.randomCase(t, t+rnd.Range(20, 400), i%6 == 0, i%13 == 5)
		w.Hist(fmt.Sprintf("population-%03d", t/50*50))
		w.End()
	}
	// bursts of a few thousand connections, drained completely
	nBurst := 2
	if thorough {
		nBurst = 12
	}
	for i := 0; i < nBurst; i++ {
		g := mk("burst")
		g.burstDrain(rnd.Pick([]int{1024, 1500, 2048, 4096, 5000}))
		w.End()
	}
	// crossing the 65536-entry row boundary (one real case in the quick tier)
	g := mk("row-boundary")
	g.bigCase(gnet.VerifRegistryColMax+rnd.Range(1, 40), 30)
	w.End()
	if thorough {
		for _, n := range []int{gnet.VerifRegistryColMax - 1, gnet.VerifRegistryColMax, gnet.VerifRegistryColMax + 1,
			2*gnet.VerifRegistryColMax - 1, 2 * gnet.VerifRegistryColMax, 2*gnet.VerifRegistryColMax + 1,
			2*gnet.VerifRegistryColMax + 100} {
			g := mk("row-boundary")
			g.bigCase(n, 60)
			w.End()
		}
	}
}
