(* Abstract specification of the connection registry (C14): a finite map from
   descriptor numbers to connection identities, as an association list whose
   keys are kept unique, and the three state-changing registry operations.
   Lookups and the count are observations of the map. *)
From GV Require Import Lib.Trace.
Open Scope Z_scope.

Definition fmap := list (Z * Z).                 (* (descriptor, connection identity) *)
Definition fm_empty : fmap := [].
Fixpoint fm_get (s : fmap) (fd : Z) : option Z :=
  match s with
  | [] => None
  | (k, v) :: t => if k =? fd then Some v else fm_get t fd
  end.
Definition fm_remove (s : fmap) (fd : Z) : fmap := filter (fun p => negb (fst p =? fd)) s.
Definition fm_add (s : fmap) (fd id : Z) : fmap := (fd, id) :: fm_remove s fd.
Definition fm_size (s : fmap) : Z := Z.of_nat (List.length s).
Definition fm_vals (s : fmap) : list Z := map snd s.

(* the visitor of an iteration removes the visited connection iff
   m > 0 and fd mod m = k  (m = 0: read-only; m = 1, k = 0: shutdown pattern) *)
Definition del_pred (m k fd : Z) : bool := (0 <? m) && (fd mod m =? k).

Inductive rop :=
| OAdd (id fd : Z)          (* register connection id under descriptor fd *)
| ODel (id : Z)             (* remove connection id *)
| OIter (m k : Z).          (* iterate, visitor as above, never stops early *)

Definition sp_step (s : fmap) (o : rop) : fmap :=
  match o with
  | OAdd id fd => fm_add s fd id
  | ODel id => filter (fun p => negb (snd p =? id)) s
  | OIter m k => filter (fun p => negb (del_pred m k (fst p))) s
  end.

(* what an iteration must visit: every live connection *)
Definition sp_out (s : fmap) (o : rop) : list (list Z) :=
  match o with OIter _ _ => [fm_vals s] | _ => [] end.

(* preconditions of the registry API: a descriptor is registered only while it
   is not registered (the kernel hands out a descriptor number again only after
   close), the connection object is not already registered, and only registered
   connections are removed *)
Definition sp_pre (s : fmap) (o : rop) : Prop :=
  match o with
  | OAdd id fd => fm_get s fd = None /\ ~ In id (fm_vals s)
  | ODel id => In id (fm_vals s)
  | OIter _ _ => True
  end.

Fixpoint sp_run (s : fmap) (ops : list rop) : fmap :=
  match ops with [] => s | o :: t => sp_run (sp_step s o) t end.
Fixpoint sp_outs (s : fmap) (ops : list rop) : list (list Z) :=
  match ops with [] => [] | o :: t => (sp_out s o ++ sp_outs (sp_step s o) t)%list end.
Fixpoint sp_wf (s : fmap) (ops : list rop) : Prop :=
  match ops with [] => True | o :: t => sp_pre s o /\ sp_wf (sp_step s o) t end.

(* every registration happens while fewer than cap connections are registered *)
Fixpoint sp_below (cap : Z) (s : fmap) (ops : list rop) : Prop :=
  match ops with
  | [] => True
  | o :: t => (match o with OAdd _ _ => fm_size s < cap | _ => True end) /\ sp_below cap (sp_step s o) t
  end.

(* every iteration's visitor removes all of the visited connections or none *)
Definition all_or_none (o : rop) : Prop :=
  match o with
  | OIter m k => (forall fd, del_pred m k fd = false) \/ (forall fd, del_pred m k fd = true)
  | _ => True
  end.
