PROP = dict(
    gens=[dict(tool="gensites", out="GenSites.v", args=["{repo}"]),
          # the size-class function the model uses is the one in the source (same obligation as C20)
          dict(tool="genintfun", out="GenIntFunPool.v", args=["{repo}/pkg/pool/byteslice/byteslice.go:index:bs_index"])],
    drivers=[dict(cmd="drv-pool", family="pool", netns=True, env={"GNET_LOGGING_LEVEL": "5"},
                  timeout={"quick": 600, "thorough": 3000})],
    rule="a case is one history: (a) 20-120 interleaved Get/Put/make/re-slice/write/GC ops by 1-8 goroutines over a private "
         "byteslice.Pool or the built-in one, sizes 0, negatives, 1..2^16 (thorough 2^22) incl. every 2^k and 2^k+-1, a few of "
         "2^31-1/2^31/2^31+1 when memory allows, shapes exact/odd capacity/re-sliced tail/capacity cut/foreign make; every 8th "
         "case also breaks the discipline on purpose (double Put, Put by a non-owner, write after Put) to exercise the ledger "
         "verdicts; (b) ring-buffer pool histories (Get/use/Put/GC, calibrated or not); (c) unsynchronised concurrent storms; "
         "(d) one engine phase (ring grow, linked-list nodes, elastic buffers, gnet echo server over tcp4/unix/udp4 and IPv6 "
         "link-local %zone connections: accepted, dialled, enrolled, udp) followed by a probe of the built-in pools. "
         "Non-trivial = reaches a tagged class (pooled-reuse, odd-cap, tail, cap-cut, foreign, gc, multi-goroutine, huge, "
         "rb-reuse, rb-dropped, storm, engine-*); distinct by hash of the op lines",
    trusted=["translator harness/cmd/genintfun (byteslice.index -> Gallina, obligation gen_index = Arith.bs_index)",
             "translator harness/cmd/gensites (go/ast: every selector on an import of pkg/pool/byteslice or pkg/pool/ringbuffer "
             "in the non-test sources that build on linux/darwin/freebsd)",
             "the per-site justification in coq/Model/Pool.v site_table is a manual analysis of each call site"],
    assumptions=["sync.Pool is a bag: Get returns a pointer that was Put and not yet returned, or nil; a GC may drop any entry; "
                 "Get/Put are atomic (an execution by any number of goroutines is a sequence of (client, op))",
                 "Go slices lie inside one allocation with 0 <= len <= cap; make returns memory disjoint from all reachable memory; "
                 "the GC never frees reachable memory",
                 "call-site discipline: each pool call site listed in GenSites.v donates memory its owner drops in the same step "
                 "(site_table); sites marked PutApiContract additionally rely on the documented gnet contract that slices returned "
                 "by Peek/Next and net.Addr values are not used after Discard / outside the event handler; discipline on runs the "
                 "engine phases do not explore is assumed",
                 "ring-buffer pool calibration (defaultSize/maxSize) is an oracle input, not modelled"],
)
