From GV Require Import Lib.Trace Model.Arith.
From Coq Require Import Lia ZArith Bool.
Open Scope Z_scope.

Ltac splits := repeat match goal with |- _ /\ _ => split end.

Definition int64 (n : Z) : Prop := -9223372036854775808 <= n < 9223372036854775808.

Lemma two63 : 9223372036854775808 = 2^63. Proof. reflexivity. Qed.
Lemma two64 : 18446744073709551616 = 2^64. Proof. reflexivity. Qed.
Lemma two62 : 4611686018427387904 = 2^62. Proof. reflexivity. Qed.

Lemma wrap64_id n : int64 n -> wrap64 n = n.
Proof.
  unfold int64, wrap64; intros H.
  rewrite Z.mod_small by lia. lia.
Qed.

Lemma wrapu64_id n : 0 <= n < 18446744073709551616 -> wrapu64 n = n.
Proof. unfold wrapu64; intros; apply Z.mod_small; lia. Qed.

Lemma wrapu32_id n : 0 <= n < 4294967296 -> wrapu32 n = n.
Proof. unfold wrapu32; intros; apply Z.mod_small; lia. Qed.

Lemma pow2_pos k : 0 <= k -> 0 < 2^k.
Proof. intros; apply Z.pow_pos_nonneg; lia. Qed.

Lemma pow2_le_mono a b : 0 <= a <= b -> 2^a <= 2^b.
Proof. intros; apply Z.pow_le_mono_r; lia. Qed.

Lemma pow2_lt_mono a b : 0 <= a < b -> 2^a < 2^b.
Proof. intros; apply Z.pow_lt_mono_r; lia. Qed.

Lemma pow2_le_inv a b : 0 <= a -> 0 <= b -> 2^a <= 2^b -> a <= b.
Proof.
  intros Ha Hb H. destruct (Z_le_gt_dec a b) as [|G]; [assumption|].
  assert (2^b < 2^a) by (apply pow2_lt_mono; lia). lia.
Qed.

Lemma pow2_succ k : 0 <= k -> 2^(k+1) = 2 * 2^k.
Proof. intros; rewrite Z.pow_add_r by lia; lia. Qed.

(* ------------------------------------------------------------------ *)
(* IsPowerOfTwo *)

Definition is_pow2 (n : Z) : Prop := exists k, 0 <= k /\ n = 2^k.

Lemma land_pred_pow2 k : 0 <= k -> Z.land (2^k) (2^k - 1) = 0.
Proof.
  intros Hk. replace (2^k - 1) with (Z.ones k) by (rewrite Z.ones_equiv; lia).
  apply Z.bits_inj'; intros i Hi. rewrite Z.land_spec, Z.bits_0.
  destruct (Z_lt_ge_dec i k).
  - rewrite Z.pow2_bits_false by lia. reflexivity.
  - rewrite Z.ones_spec_high by lia. apply andb_false_r.
Qed.

Lemma land_pred_nonpow2 n : 0 < n -> Z.land n (n - 1) = 0 -> n = 2^(Z.log2 n).
Proof.
  intros Hn H.
  pose proof (Z.log2_spec n Hn) as [Hlo Hhi].
  pose proof (Z.log2_nonneg n) as Hl.
  destruct (Z.eq_dec n (2^(Z.log2 n))) as [|Hne]; [assumption|exfalso].
  (* n > 2^L, so n-1 >= 2^L, and both have bit L set *)
  assert (Hb1 : Z.testbit n (Z.log2 n) = true) by (apply Z.bit_log2; lia).
  assert (Hl1 : Z.log2 (n - 1) = Z.log2 n).
  { apply Z.log2_unique; [lia|]. split; lia. }
  assert (Hb2 : Z.testbit (n - 1) (Z.log2 n) = true).
  { rewrite <- Hl1. apply Z.bit_log2. lia. }
  assert (Hc : Z.testbit (Z.land n (n - 1)) (Z.log2 n) = true).
  { rewrite Z.land_spec, Hb1, Hb2. reflexivity. }
  rewrite H, Z.bits_0 in Hc. discriminate.
Qed.

Theorem is_pow2_spec n : int64 n ->
  exists b, IsPowerOfTwo n = Ret b /\ (b = true <-> is_pow2 n).
Proof.
  intros Hr. unfold IsPowerOfTwo. eexists; split; [reflexivity|].
  destruct (Z.gtb_spec n 0) as [Hpos|Hnp]; cbn [andb].
  - rewrite wrap64_id by (unfold int64 in *; lia).
    rewrite Z.eqb_eq. split.
    + intros H. exists (Z.log2 n). split; [apply Z.log2_nonneg|].
      apply land_pred_nonpow2; assumption.
    + intros (k & Hk & ->). apply land_pred_pow2; assumption.
  - split; [discriminate|]. intros (k & Hk & ->).
    pose proof (pow2_pos k Hk). lia.
Qed.

(* ------------------------------------------------------------------ *)
(* CeilToPowerOfTwo *)

Lemma bit62_of_large n : 4611686018427387904 < n < 9223372036854775808 ->
  Z.land n 4611686018427387904 <> 0.
Proof.
  intros H Hc.
  assert (Hl : Z.log2 n = 62).
  { apply Z.log2_unique; [lia|]. change (2^62) with 4611686018427387904.
    change (2^(Z.succ 62)) with 9223372036854775808. lia. }
  assert (Hb : Z.testbit (Z.land n 4611686018427387904) 62 = true).
  { rewrite Z.land_spec.
    replace (Z.testbit n 62) with true by (rewrite <- Hl; symmetry; apply Z.bit_log2; lia).
    reflexivity. }
  rewrite Hc, Z.bits_0 in Hb. discriminate.
Qed.

Lemma ceil_guard n : int64 n ->
  (negb (Z.land n 4611686018427387904 =? 0) && (n >? 4611686018427387904)) = (n >? 4611686018427387904).
Proof.
  intros Hr. destruct (Z.gtb_spec n 4611686018427387904) as [Hg|Hl].
  - rewrite andb_true_r. unfold int64 in Hr.
    pose proof (bit62_of_large n ltac:(lia)) as Hne.
    apply Z.eqb_neq in Hne. rewrite Hne. reflexivity.
  - apply andb_false_r.
Qed.

Definition ceil_result (n r : Z) : Prop :=
  exists k, 0 <= k /\ r = 2^k /\ Z.max n 2 <= r /\
            forall j, 0 <= j -> Z.max n 2 <= 2^j -> r <= 2^j.

Lemma ceil_shape n : 2 < n <= 4611686018427387904 ->
  let k := Z.log2 (n - 1) + 1 in
  1 <= k <= 62 /\ 2^(k-1) < n <= 2^k.
Proof.
  intros H k. subst k.
  pose proof (Z.log2_spec (n - 1) ltac:(lia)) as [Hlo Hhi].
  pose proof (Z.log2_nonneg (n - 1)) as Hnn.
  rewrite <- Z.add_1_r in Hhi.
  replace (Z.log2 (n - 1) + 1 - 1) with (Z.log2 (n - 1)) by lia.
  assert (Z.log2 (n - 1) < 62).
  { apply Z.log2_lt_pow2; [lia|]. change (2^62) with 4611686018427387904. lia. }
  lia.
Qed.

Theorem ceil_spec n : int64 n ->
  (n > 4611686018427387904 -> CeilToPowerOfTwo n = Panic) /\
  (n <= 4611686018427387904 -> exists r, CeilToPowerOfTwo n = Ret r /\ ceil_result n r).
Proof.
  intros Hr. unfold CeilToPowerOfTwo. rewrite (ceil_guard n Hr). split.
  - intros Hg. destruct (Z.gtb_spec n 4611686018427387904); [reflexivity|lia].
  - intros Hle. destruct (Z.gtb_spec n 4611686018427387904); [lia|].
    destruct (Z.leb_spec n 2) as [H2|H2].
    + exists 2. split; [reflexivity|]. exists 1. splits; try lia.
    + pose proof (ceil_shape n ltac:(lia)) as (Hk & Hlo & Hhi).
      set (k := Z.log2 (n - 1) + 1) in *.
      unfold int64 in Hr.
      rewrite (wrap64_id (n - 1)) by (unfold int64; lia).
      rewrite wrapu64_id by lia.
      unfold bits_len. destruct (Z.leb_spec (n - 1) 0); [lia|]. fold k.
      rewrite Z.shiftl_1_l.
      assert (Hk62 : 2^k <= 2^62) by (apply pow2_le_mono; lia).
      change (2^62) with 4611686018427387904 in Hk62.
      pose proof (pow2_pos k ltac:(lia)).
      rewrite wrap64_id by (unfold int64; lia).
      eexists; split; [reflexivity|]. exists k. splits; try lia.
      intros j Hj Hm.
      destruct (Z_le_gt_dec k j) as [|Hgt]; [apply pow2_le_mono; lia|].
      assert (2^j <= 2^(k-1)) by (apply pow2_le_mono; lia). lia.
Qed.

(* ------------------------------------------------------------------ *)
(* FloorToPowerOfTwo *)

Definition smear (n s : Z) : Z := Z.lor n (Z.shiftr n s).

(* top w bits (from bit L downwards, clipped at 0) are set *)
Definition top_set (n L w : Z) : Prop :=
  forall i, 0 <= i -> L - w < i <= L -> Z.testbit n i = true.

Lemma smear_step n L w s :
  0 < n -> Z.log2 n = L -> top_set n L w -> 0 < s <= w ->
  0 < smear n s /\ Z.log2 (smear n s) = L /\ top_set (smear n s) L (w + s).
Proof.
  intros Hn HL Ht Hs. unfold smear.
  assert (Hsh : 0 <= Z.shiftr n s) by (apply Z.shiftr_nonneg; lia).
  assert (Hlog : Z.log2 (Z.lor n (Z.shiftr n s)) = L).
  { rewrite Z.log2_lor by lia. rewrite Z.log2_shiftr by lia.
    pose proof (Z.log2_nonneg n). lia. }
  assert (Hpos : 0 < Z.lor n (Z.shiftr n s)).
  { assert (0 <= Z.lor n (Z.shiftr n s)) by (apply Z.lor_nonneg; lia).
    destruct (Z.eq_dec (Z.lor n (Z.shiftr n s)) 0) as [E|]; [|lia].
    apply Z.lor_eq_0_iff in E. lia. }
  splits; try assumption.
  intros i Hi Hr. rewrite Z.lor_spec, Z.shiftr_spec by lia.
  destruct (Z_lt_ge_dec (L - w) i).
  - rewrite Ht by lia. reflexivity.
  - rewrite (Ht (i + s)) by lia. apply orb_true_r.
Qed.

Lemma all_set_ones n L : 0 < n -> Z.log2 n = L -> top_set n L (L + 1) -> n = 2^(L+1) - 1.
Proof.
  intros Hn HL Ht. pose proof (Z.log2_nonneg n).
  replace (2^(L+1) - 1) with (Z.ones (L+1)) by (rewrite Z.ones_equiv; lia).
  apply Z.bits_inj'; intros i Hi.
  destruct (Z_lt_ge_dec i (L + 1)).
  - rewrite Z.ones_spec_low by lia. apply Ht; lia.
  - rewrite Z.ones_spec_high by lia. apply Z.bits_above_log2; lia.
Qed.

Lemma top_set_weaken n L w w' : w' <= w -> top_set n L w -> top_set n L w'.
Proof. unfold top_set; intros Hw H i Hi Hr; apply H; lia. Qed.

Theorem floor_spec n : int64 n ->
  (n <= 2 -> FloorToPowerOfTwo n = Ret n) /\
  (2 < n -> FloorToPowerOfTwo n = Ret (2^(Z.log2 n))).
Proof.
  intros Hr. unfold FloorToPowerOfTwo. split; intros Hn.
  - destruct (Z.leb_spec n 2); [reflexivity|lia].
  - destruct (Z.leb_spec n 2); [lia|]. cbv zeta.
    set (L := Z.log2 n).
    assert (HL63 : L < 63).
    { apply Z.log2_lt_pow2; [lia|]. unfold int64 in Hr. rewrite <- two63. lia. }
    assert (HL0 : 1 <= L).
    { change 1 with (Z.log2 2). apply Z.log2_le_mono. lia. }
    assert (H0 : top_set n L 1).
    { intros i Hi Hi2. replace i with L by lia. apply Z.bit_log2. lia. }
    fold (smear n 1).
    destruct (smear_step n L 1 1 ltac:(lia) eq_refl H0 ltac:(lia)) as (P1 & L1 & T1).
    set (n1 := smear n 1) in *. fold (smear n1 2).
    destruct (smear_step n1 L 2 2 P1 L1 T1 ltac:(lia)) as (P2 & L2 & T2).
    set (n2 := smear n1 2) in *. fold (smear n2 4).
    destruct (smear_step n2 L 4 4 P2 L2 T2 ltac:(lia)) as (P3 & L3 & T3).
    set (n3 := smear n2 4) in *. fold (smear n3 8).
    destruct (smear_step n3 L 8 8 P3 L3 T3 ltac:(lia)) as (P4 & L4 & T4).
    set (n4 := smear n3 8) in *. fold (smear n4 16).
    destruct (smear_step n4 L 16 16 P4 L4 T4 ltac:(lia)) as (P5 & L5 & T5).
    set (n5 := smear n4 16) in *. fold (smear n5 32).
    destruct (smear_step n5 L 32 32 P5 L5 T5 ltac:(lia)) as (P6 & L6 & T6).
    set (n6 := smear n5 32) in *.
    assert (E : n6 = 2^(L+1) - 1).
    { apply all_set_ones; try assumption. eapply top_set_weaken; [|exact T6]. lia. }
    rewrite E. rewrite Z.shiftr_div_pow2 by lia.
    rewrite pow2_succ by lia. change (2^1) with 2.
    pose proof (pow2_pos L ltac:(lia)) as HpL.
    replace ((2 * 2^L - 1) / 2) with (2^L - 1) by
      (apply Z.div_unique with (r := 1); lia).
    assert (2^L <= 2^62) by (apply pow2_le_mono; lia).
    change (2^62) with 4611686018427387904 in *.
    rewrite wrap64_id by (unfold int64; lia). f_equal. lia.
Qed.

Corollary floor_is_largest n : int64 n -> 2 < n ->
  exists r, FloorToPowerOfTwo n = Ret r /\ is_pow2 r /\ r <= n /\
            forall j, 0 <= j -> 2^j <= n -> 2^j <= r.
Proof.
  intros Hr Hn. destruct (floor_spec n Hr) as [_ H]. rewrite (H Hn).
  eexists; split; [reflexivity|].
  pose proof (Z.log2_spec n ltac:(lia)) as [Hlo Hhi].
  pose proof (Z.log2_nonneg n).
  splits.
  - exists (Z.log2 n); split; [assumption|reflexivity].
  - assumption.
  - intros j Hj Hle. apply pow2_le_mono. split; [assumption|].
    destruct (Z_le_gt_dec j (Z.log2 n)); [assumption|].
    assert (2^(Z.succ (Z.log2 n)) <= 2^j) by (apply pow2_le_mono; lia). lia.
Qed.

(* ------------------------------------------------------------------ *)
(* ClosestPowerOfTwo *)

Definition closest_result (n r : Z) : Prop :=
  is_pow2 r /\
  forall j, 0 <= j -> Z.abs (n - r) <= Z.abs (n - 2^j) /\
                      (Z.abs (n - r) = Z.abs (n - 2^j) -> 2^j <= r).

Theorem closest_spec n : 1 <= n <= 4611686018427387904 ->
  exists r, ClosestPowerOfTwo n = Ret r /\ closest_result n r.
Proof.
  intros Hn. unfold ClosestPowerOfTwo.
  assert (Hr : int64 n) by (unfold int64; lia).
  destruct (ceil_spec n Hr) as [_ Hc]. destruct (Hc ltac:(lia)) as (next & -> & Hres).
  cbn [obind]. destruct Hres as (k & Hk & -> & Hge & Hmin).
  assert (Hk1 : 1 <= k).
  { destruct (Z.eq_dec k 0) as [->|]; [simpl in Hge; lia|lia]. }
  assert (Hk62 : k <= 62).
  { apply pow2_le_inv; try lia. apply Hmin; [lia|]. change (2^62) with 4611686018427387904. lia. }
  assert (Hq : Z.quot (2^k) 2 = 2^(k-1)).
  { replace (2^k) with (2 * 2^(k-1)) by (rewrite <- pow2_succ by lia; f_equal; lia).
    rewrite Z.mul_comm. apply Z.quot_mul. lia. }
  rewrite Hq.
  pose proof (pow2_pos (k-1) ltac:(lia)) as Hpp.
  assert (Hkk : 2^k = 2 * 2^(k-1)) by (rewrite <- pow2_succ by lia; f_equal; lia).
  assert (Hb62 : 2^k <= 4611686018427387904).
  { change 4611686018427387904 with (2^62). apply pow2_le_mono; lia. }
  (* prev < n unless n <= 2 *)
  assert (Hprev : 2^(k-1) < n \/ n <= 2).
  { destruct (Z_le_gt_dec n 2); [right; assumption|left].
    destruct (Z_lt_ge_dec (2^(k-1)) n) as [|Hc2]; [assumption|exfalso].
    assert (2^k <= 2^(k-1)) by (apply Hmin; lia). lia. }
  rewrite !wrap64_id by (unfold int64; lia).
  cbv zeta.
  (* every power of two is <= prev or >= next *)
  assert (Hsplit : forall j, 0 <= j -> 2^j <= 2^(k-1) \/ 2^k <= 2^j).
  { intros j Hj. destruct (Z_le_gt_dec j (k-1)); [left|right]; apply pow2_le_mono; lia. }
  destruct (Z.ltb_spec (n - 2^(k-1)) (2^k - n)) as [Hlt|Hge2].
  - eexists; split; [reflexivity|]. split; [exists (k-1); split; [lia|reflexivity]|].
    intros j Hj. destruct (Hsplit j Hj) as [Hl|Hu].
    + destruct Hprev as [Hp|Hp].
      * split; [lia|intros; lia].
      * (* n <= 2 : k = 1, prev = 1 *)
        assert (k = 1).
        { assert (2^k <= 2^1) by (apply Hmin; [lia|simpl; lia]).
          apply pow2_le_inv in H; lia. }
        subst k. simpl in *. pose proof (pow2_pos j Hj). split; [lia|intros; lia].
    + split; [lia|intros; lia].
  - eexists; split; [reflexivity|]. split; [exists k; split; [lia|reflexivity]|].
    intros j Hj. destruct (Hsplit j Hj) as [Hl|Hu].
    + pose proof (pow2_pos j Hj). split; [lia|intros; lia].
    + split; [lia|intros; lia].
Qed.

Theorem closest_panics_above n : int64 n -> 4611686018427387904 < n -> ClosestPowerOfTwo n = Panic.
Proof.
  intros Hr Hn. unfold ClosestPowerOfTwo. destruct (ceil_spec n Hr) as [Hp _].
  rewrite Hp by lia. reflexivity.
Qed.

(* ------------------------------------------------------------------ *)
(* byteslice.index *)

Theorem bs_index_spec n : 1 <= n <= 2147483647 ->
  exists i, bs_index n = Ret i /\ 0 <= i <= 31 /\ n <= 2^i /\
            forall j, 0 <= j -> n <= 2^j -> i <= j.
Proof.
  intros Hn. unfold bs_index. rewrite (wrapu32_id (n - 1)) by lia.
  unfold bits_len. destruct (Z.leb_spec (n - 1) 0) as [H0|H0].
  - assert (n = 1) by lia. subst n. exists 0. cbn. splits; try lia; reflexivity.
  - pose proof (Z.log2_spec (n - 1) H0) as [Hlo Hhi].
    pose proof (Z.log2_nonneg (n - 1)) as Hnn.
    assert (Hl31 : Z.log2 (n - 1) < 31).
    { apply Z.log2_lt_pow2; [lia|]. change (2^31) with 2147483648. lia. }
    rewrite wrapu32_id by lia.
    eexists; split; [reflexivity|]. rewrite <- Z.add_1_r in Hhi.
    splits; try lia.
    intros j Hj Hle. destruct (Z_le_gt_dec (Z.log2 (n - 1) + 1) j); [assumption|exfalso].
    assert (2^j <= 2^(Z.log2 (n - 1))) by (apply pow2_le_mono; lia). lia.
Qed.

(* class chosen by Put for an arbitrary capacity: rounded down *)
Definition put_class (c : Z) : outcome Z :=
  obind (bs_index c) (fun idx => Ret (if negb (c =? Z.shiftl 1 idx) then idx - 1 else idx)).

Theorem put_class_le_cap c : 1 <= c <= 2147483647 ->
  exists i, put_class c = Ret i /\ 0 <= i <= 31 /\ 2^i <= c.
Proof.
  intros Hc. unfold put_class.
  destruct (bs_index_spec c Hc) as (i & -> & Hi & Hle & Hmin). cbn [obind].
  rewrite Z.shiftl_1_l. destruct (Z.eqb_spec c (2^i)) as [E|NE]; cbn [negb].
  - exists i. split; [reflexivity|]. splits; lia.
  - exists (i - 1). split; [reflexivity|].
    assert (1 <= i).
    { destruct (Z.eq_dec i 0) as [->|]; [simpl in *; lia|lia]. }
    splits; try lia.
    destruct (Z_le_gt_dec (2^(i-1)) c); [assumption|exfalso].
    assert (i <= i - 1) by (apply Hmin; lia). lia.
Qed.

(* ------------------------------------------------------------------ *)
(* GFD pack / unpack *)

Lemma be_decode_acc_app acc l1 l2 :
  be_decode_acc acc (l1 ++ l2) = be_decode_acc (be_decode_acc acc l1) l2.
Proof. revert acc; induction l1 as [|b l1 IH]; intros acc; cbn; [reflexivity|apply IH]. Qed.

Lemma be_decode_acc_encode k : forall acc z, 0 <= z ->
  be_decode_acc acc (be_encode k z) = acc * 256^(Z.of_nat k) + z mod 256^(Z.of_nat k).
Proof.
  induction k as [|k IH]; intros acc z Hz.
  - cbn. rewrite Z.mod_1_r. lia.
  - cbn [be_encode]. rewrite be_decode_acc_app, IH by (apply Z.div_pos; lia).
    cbn [be_decode_acc]. rewrite Nat2Z.inj_succ, Z.pow_succ_r by lia.
    set (P := 256 ^ Z.of_nat k).
    assert (HP : 0 < P) by (apply Z.pow_pos_nonneg; lia).
    rewrite Z.rem_mul_r by lia. lia.
Qed.

Lemma be_roundtrip k z : 0 <= z < 256^(Z.of_nat k) -> be_decode (be_encode k z) = z.
Proof.
  intros H. unfold be_decode. rewrite be_decode_acc_encode by lia.
  rewrite Z.mod_small by lia. lia.
Qed.

Lemma be_encode_length k z : List.length (be_encode k z) = k.
Proof. revert z; induction k as [|k IH]; intros z; cbn; [reflexivity|]. rewrite app_length, IH. cbn. lia. Qed.

Lemma wrap64_wrapu64 z : int64 z -> wrap64 (wrapu64 z) = z.
Proof.
  unfold int64, wrap64, wrapu64. intros H. Z.div_mod_to_equations. lia.
Qed.

Theorem gfd_roundtrip fd el row col seq :
  int64 fd -> 0 <= el < 256 -> 0 <= row < 256 -> 0 <= col < 65536 -> 0 <= seq < 4294967296 ->
  let g := new_gfd fd el row col seq in
  gfd_fd g = fd /\ gfd_el g = el /\ gfd_row g = row /\ gfd_col g = col /\ gfd_seq g = seq /\
  List.length g = 16%nat.
Proof.
  intros Hfd Hel Hrow Hcol Hseq g. subst g.
  assert (Hu : 0 <= wrapu64 fd < 256 ^ Z.of_nat 8).
  { unfold wrapu64. change (256 ^ Z.of_nat 8) with 18446744073709551616. apply Z.mod_pos_bound. lia. }
  splits.
  - unfold gfd_fd.
    change (slice (new_gfd fd el row col seq) 8 16) with (be_encode 8 (wrapu64 fd)).
    rewrite be_roundtrip by exact Hu. apply wrap64_wrapu64; assumption.
  - unfold gfd_el, new_gfd, wrapu8. cbn [nth app]. apply Z.mod_small; lia.
  - unfold gfd_row, new_gfd, wrapu8. cbn [nth app]. apply Z.mod_small; lia.
  - unfold gfd_col.
    change (slice (new_gfd fd el row col seq) 2 4) with (be_encode 2 (wrapu16 col)).
    unfold wrapu16. rewrite (Z.mod_small col) by lia.
    apply be_roundtrip. change (256 ^ Z.of_nat 2) with 65536. lia.
  - unfold gfd_seq.
    change (slice (new_gfd fd el row col seq) 4 8) with (be_encode 4 (wrapu32 seq)).
    unfold wrapu32. rewrite (Z.mod_small seq) by lia.
    apply be_roundtrip. change (256 ^ Z.of_nat 4) with 4294967296. lia.
  - reflexivity.
Qed.

Theorem gfd_update_roundtrip fd el row col seq row2 col2 :
  int64 fd -> 0 <= el < 256 -> 0 <= row < 256 -> 0 <= col < 65536 -> 0 <= seq < 4294967296 ->
  0 <= row2 < 256 -> 0 <= col2 < 65536 ->
  gfd_update (new_gfd fd el row col seq) row2 col2 = new_gfd fd el row2 col2 seq.
Proof.
  intros Hfd Hel Hrow Hcol Hseq Hrow2 Hcol2. unfold new_gfd, gfd_update.
  unfold wrapu8, wrapu16, wrapu32. rewrite !Z.mod_small by lia.
  cbn [be_encode app]. reflexivity.
Qed.
