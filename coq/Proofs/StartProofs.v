(* Proofs about Model/Start.v: the START sequence as a resource ledger.

   For every configuration (any number of loops and listeners, any injected fault or none):
   every descriptor created is closed when Run returns, no descriptor is closed twice, only
   created descriptors are closed, a failing start has started no goroutine, Run reports Failed
   exactly when the start failed, and a successful start has started the expected goroutines.
   The injectable calls are epoll_create1, eventfd, epoll_ctl ADD, socket(2) of a listener (SSock)
   and the options applied to a listener just opened (SOpt): a failing socket call ends
   createListeners (Run returns Failed before the start) or the reuse-port loop that wanted the
   listener; in both cases the listeners created so far by that step are closed again, which is
   the [ok = false] case of [create_socks_inv].  Failing options do the same, after the listener
   they were meant for has been closed by initListener itself ([close_fresh_L_inv]: that descriptor
   moves from "held" to "closed" and is not among the listeners returned).

   Proof shape.  [Inv s P Ls] relates the ledger to what the engine still holds:
     P   the poller descriptors held (epoll descriptors and eventfds): pairwise distinct, created,
         not closed, and none of them a listener;
     Ls  the listener descriptors held (with repetitions: the reactors share the engine's
         listeners): created; they are only ever closed through [close_once];
   and every created descriptor is closed, or in P, or in Ls.  Every building block of the start
   preserves it; the clean-up empties P and closes all of Ls. *)
From GV Require Import Model.Start.
From Coq Require Import List Arith Bool Lia PeanoNat.
Import ListNotations.
Open Scope list_scope.

(* ------------------------------------------------------------------ *)
(* small list facts *)

Lemma existsb_eqb_In : forall id l, existsb (Nat.eqb id) l = true <-> In id l.
Proof.
  intros id l. rewrite existsb_exists. split.
  - intros [x [H E]]. apply Nat.eqb_eq in E. subst. exact H.
  - intros H. exists id. split; [exact H | apply Nat.eqb_refl].
Qed.

Lemma existsb_eqb_notIn : forall id l, existsb (Nat.eqb id) l = false <-> ~ In id l.
Proof.
  intros id l. rewrite <- existsb_eqb_In. destruct (existsb (Nat.eqb id) l); split; intros; congruence.
Qed.

Lemma filter_none : forall A (f : A -> bool) l, (forall x, In x l -> f x = false) -> filter f l = [].
Proof.
  induction l as [|x r IH]; intros H; cbn; auto.
  rewrite (H x (or_introl eq_refl)). apply IH. intros y Hy. apply H. right; exact Hy.
Qed.

Lemma NoDup_dup_closes : forall l, NoDup l -> dup_closes l = 0.
Proof.
  induction 1 as [|x r Hx Hr IH]; cbn; auto.
  apply existsb_eqb_notIn in Hx. rewrite Hx, IH. reflexivity.
Qed.

Lemma NoDup_snoc : forall (x : nat) l, NoDup l -> ~ In x l -> NoDup (l ++ [x]).
Proof.
  intros x l H1 H2. apply (NoDup_Add (a := x) (l := l)).
  - pattern l at 1. rewrite <- (app_nil_r l). apply Add_app.
  - split; assumption.
Qed.

(* ------------------------------------------------------------------ *)
(* the invariant *)

Record Inv (s : st) (P Ls : list nat) : Prop := mkInv {
  inv_opn : forall id, In id (map fst (opn s)) <-> id < nxt s;
  inv_cls_nd : NoDup (cls s);
  inv_cls_lt : forall id, In id (cls s) -> id < nxt s;
  inv_P_nd : NoDup P;
  inv_P_live : forall id, In id P -> id < nxt s /\ ~ In id (cls s) /\ ~ In id Ls;
  inv_Ls_lt : forall id, In id Ls -> id < nxt s;
  inv_cover : forall id, id < nxt s -> In id (cls s) \/ In id P \/ In id Ls;
}.

Lemma Inv_st0 : Inv st0 [] [].
Proof.
  constructor; cbn; intros; try tauto; try constructor; try lia; try tauto.
Qed.

(* only nxt, opn and cls matter *)
Lemma Inv_frame : forall s s' P Ls,
  nxt s' = nxt s -> opn s' = opn s -> cls s' = cls s -> Inv s P Ls -> Inv s' P Ls.
Proof.
  intros s s' P Ls H1 H2 H3 [A B C D E F G].
  constructor; rewrite ?H1, ?H2, ?H3; assumption.
Qed.

(* the listener set can be replaced by a smaller one when what is dropped has been closed *)
Lemma Inv_weaken : forall s P Ls Ls',
  Inv s P Ls ->
  (forall id, In id Ls' -> In id Ls) ->
  (forall id, In id Ls -> In id Ls' \/ In id (cls s)) ->
  Inv s P Ls'.
Proof.
  intros s P Ls Ls' [A B C D E F G] H1 H2.
  constructor; auto.
  - intros id Hid. destruct (E id Hid) as [E1 [E2 E3]]. repeat split; auto.
  - intros id Hid. destruct (G id Hid) as [G1|[G1|G1]]; auto.
    destruct (H2 id G1); auto.
Qed.

Lemma Inv_equiv : forall s P Ls Ls',
  Inv s P Ls -> (forall id, In id Ls <-> In id Ls') -> Inv s P Ls'.
Proof.
  intros s P Ls Ls' H E. apply (Inv_weaken s P Ls); auto.
  - intros id; apply E.
  - intros id Hid; left; apply E; exact Hid.
Qed.

(* ------------------------------------------------------------------ *)
(* the primitive steps *)

Lemma call_inv : forall f c s b s1 P Ls, call f c s = (b, s1) -> Inv s P Ls -> Inv s1 P Ls.
Proof.
  intros f c s b s1 P Ls E H.
  apply (Inv_frame s); auto; destruct c; cbn in E; inversion E; reflexivity.
Qed.

Lemma call_gos : forall f c s b s1, call f c s = (b, s1) -> gos s1 = gos s.
Proof. intros f c s b s1 E. destruct c; cbn in E; inversion E; reflexivity. Qed.

Lemma call_none : forall c s, fst (call None c s) = false.
Proof. intros [] s; reflexivity. Qed.

Lemma create_gos : forall k s id s1, create k s = (id, s1) -> gos s1 = gos s.
Proof. unfold create; intros k s id s1 E; inversion E; reflexivity. Qed.

Lemma call_cls : forall f c s b s1, call f c s = (b, s1) -> cls s1 = cls s.
Proof. intros f c s b s1 E. destruct c; cbn in E; inversion E; reflexivity. Qed.

(* a descriptor just created has not been closed *)
Lemma create_fresh : forall k s id s1 P Ls,
  create k s = (id, s1) -> Inv s P Ls -> ~ In id (cls s1).
Proof.
  unfold create. intros k s id s1 P Ls E H. inversion E; subst; clear E. cbn.
  intros Hc. apply (inv_cls_lt _ _ _ H) in Hc. lia.
Qed.

(* a new poller descriptor *)
Lemma create_P_inv : forall k s id s1 P Ls,
  create k s = (id, s1) -> Inv s P Ls -> Inv s1 (P ++ [id]) Ls.
Proof.
  unfold create. intros k s id s1 P Ls E [A B C D E' F G]. inversion E; subst; clear E.
  constructor; cbn.
  - intros id. split.
    + intros [<-|H]; [lia | apply A in H; lia].
    + intros H. destruct (Nat.eq_dec (nxt s) id) as [e|ne]; [left; exact e | right; apply A; lia].
  - exact B.
  - intros id H. apply C in H. lia.
  - apply NoDup_snoc; auto. intros H. apply E' in H. lia.
  - intros id H. apply in_app_iff in H. destruct H as [H|[<-|[]]].
    + destruct (E' id H) as [E1 [E2 E3]]. repeat split; auto.
    + repeat split; auto.
      * intros H. apply C in H. lia.
      * intros H. apply F in H. lia.
  - intros id H. apply F in H. lia.
  - intros id H. rewrite in_app_iff. cbn.
    destruct (Nat.eq_dec (nxt s) id) as [e|ne]; [right; left; right; left; exact e|].
    destruct (G id) as [G1|[G1|G1]]; auto; lia.
Qed.

(* a new listener socket *)
Lemma create_L_inv : forall k s id s1 P Ls,
  create k s = (id, s1) -> Inv s P Ls -> Inv s1 P (id :: Ls).
Proof.
  unfold create. intros k s id s1 P Ls E [A B C D E' F G]. inversion E; subst; clear E.
  constructor; cbn.
  - intros id. split.
    + intros [<-|H]; [lia | apply A in H; lia].
    + intros H. destruct (Nat.eq_dec (nxt s) id) as [e|ne]; [left; exact e | right; apply A; lia].
  - exact B.
  - intros id H. apply C in H. lia.
  - exact D.
  - intros id H. destruct (E' id H) as [E1 [E2 E3]]. repeat split; auto.
    intros [<-|H']; [lia | auto].
  - intros id [<-|H]; [lia | apply F in H; lia].
  - intros id H.
    destruct (Nat.eq_dec (nxt s) id) as [e|ne]; [right; right; left; exact e|].
    destruct (G id) as [G1|[G1|G1]]; auto; lia.
Qed.

(* closing a poller descriptor that is held *)
Lemma close_P_inv : forall s id P1 P2 Ls,
  Inv s (P1 ++ id :: P2) Ls -> Inv (close id s) (P1 ++ P2) Ls.
Proof.
  intros s id P1 P2 Ls [A B C D E F G].
  assert (Hid : In id (P1 ++ id :: P2)) by (apply in_app_iff; right; left; reflexivity).
  destruct (E id Hid) as [I1 [I2 I3]].
  constructor; cbn; auto.
  - constructor; auto.
  - intros x [<-|H]; auto.
  - apply NoDup_remove_1 in D. exact D.
  - intros x H.
    assert (Hx : In x (P1 ++ id :: P2)).
    { apply in_app_iff in H. apply in_app_iff. cbn. tauto. }
    destruct (E x Hx) as [E1 [E2 E3]]. repeat split; auto.
    intros [<-|H']; auto.
    apply NoDup_remove_2 in D. auto.
  - intros x H. destruct (G x H) as [G1|[G1|G1]]; auto.
    apply in_app_iff in G1. cbn in G1. rewrite in_app_iff.
    destruct G1 as [G1|[G1|G1]]; auto.
Qed.

(* closing a listener that is held and not yet closed *)
Lemma close_L_inv : forall s id P Ls,
  Inv s P Ls -> In id Ls -> ~ In id (cls s) -> Inv (close id s) P Ls.
Proof.
  intros s id P Ls [A B C D E F G] H1 H2.
  constructor; cbn; auto.
  - constructor; auto.
  - intros x [<-|H]; auto.
  - intros x H. destruct (E x H) as [E1 [E2 E3]]. repeat split; auto.
    intros [<-|H']; auto.
  - intros x H. destruct (G x H) as [G1|[G1|G1]]; auto.
Qed.

Lemma close_once_inv : forall s id P Ls, Inv s P Ls -> In id Ls -> Inv (close_once id s) P Ls.
Proof.
  intros s id P Ls H Hid. unfold close_once.
  destruct (existsb (Nat.eqb id) (cls s)) eqn:X; auto.
  apply close_L_inv; auto. apply existsb_eqb_notIn; exact X.
Qed.

Lemma close_once_frame : forall id s,
  nxt (close_once id s) = nxt s /\ opn (close_once id s) = opn s /\ gos (close_once id s) = gos s.
Proof. intros id s. unfold close_once. destruct (existsb _ _); cbn; auto. Qed.

Lemma close_once_cls : forall id s x,
  In x (cls (close_once id s)) <-> x = id \/ In x (cls s).
Proof.
  intros id s x. unfold close_once. destruct (existsb (Nat.eqb id) (cls s)) eqn:X; cbn.
  - apply existsb_eqb_In in X. split; auto. intros [->|H]; auto.
  - split; intros [H|H]; auto.
Qed.

Lemma close_all_once_inv : forall lns s P Ls,
  Inv s P Ls -> (forall id, In id lns -> In id Ls) -> Inv (close_all_once lns s) P Ls.
Proof.
  unfold close_all_once. induction lns as [|x r IH]; intros s P Ls H Hs; cbn; auto.
  apply IH.
  - apply close_once_inv; auto. apply Hs; left; reflexivity.
  - intros id Hid. apply Hs; right; exact Hid.
Qed.

Lemma close_all_once_gos : forall lns s, gos (close_all_once lns s) = gos s.
Proof.
  unfold close_all_once. induction lns as [|x r IH]; intros s; cbn; auto.
  rewrite IH. apply close_once_frame.
Qed.

Lemma close_all_once_cls : forall lns s x,
  In x (cls (close_all_once lns s)) <-> In x lns \/ In x (cls s).
Proof.
  unfold close_all_once. induction lns as [|y r IH]; intros s x; cbn.
  - tauto.
  - rewrite IH, close_once_cls. split; intros H; intuition.
Qed.

(* ------------------------------------------------------------------ *)
(* what the registered loops hold *)

Definition pids (regs : list loopr) : list nat :=
  flat_map (fun r : loopr => [fst (snd r); snd (snd r)]) regs.
Definition ipids (ing : option (nat * nat)) : list nat :=
  match ing with Some p => [fst p; snd p] | None => [] end.
Definition lids (regs : list loopr) : list nat := flat_map (fun r : loopr => fst r) regs.

Lemma pids_snoc : forall regs lns p, pids (regs ++ [(lns, p)]) = pids regs ++ [fst p; snd p].
Proof. intros. unfold pids. rewrite flat_map_app. reflexivity. Qed.

Lemma in_lids_snoc : forall regs lns (p : nat * nat) id,
  In id (lids (regs ++ [(lns, p)])) <-> In id (lids regs) \/ In id lns.
Proof.
  intros. unfold lids. rewrite flat_map_app, in_app_iff. cbn. rewrite app_nil_r. tauto.
Qed.

(* ------------------------------------------------------------------ *)
(* the building blocks of the start *)

Lemma open_poller_inv : forall f s s' op P Ls,
  open_poller f s = (s', op) -> Inv s P Ls ->
  gos s' = gos s /\
  match op with
  | Some p => Inv s' (P ++ [fst p; snd p]) Ls
  | None => Inv s' P Ls
  end.
Proof.
  unfold open_poller. intros f s s' op P Ls E H.
  destruct (call f SEpoll s) as [b1 s1] eqn:E1.
  pose proof (call_gos _ _ _ _ _ E1) as G1. apply call_inv with (P := P) (Ls := Ls) in E1; auto.
  destruct b1.
  { inversion E; subst; clear E. auto. }
  destruct (create KEpoll s1) as [ep s2] eqn:E2.
  pose proof (create_gos _ _ _ _ E2) as G2. apply create_P_inv with (P := P) (Ls := Ls) in E2; auto.
  destruct (call f SEfd s2) as [b3 s3] eqn:E3.
  pose proof (call_gos _ _ _ _ _ E3) as G3. apply call_inv with (P := P ++ [ep]) (Ls := Ls) in E3; auto.
  destruct b3.
  { inversion E; subst; clear E. split; [cbn; congruence|].
    apply close_P_inv in E3. rewrite app_nil_r in E3. exact E3. }
  destruct (create KEfd s3) as [ef s4] eqn:E4.
  pose proof (create_gos _ _ _ _ E4) as G4.
  apply create_P_inv with (P := P ++ [ep]) (Ls := Ls) in E4; auto.
  destruct (call f SAdd s4) as [b5 s5] eqn:E5.
  pose proof (call_gos _ _ _ _ _ E5) as G5.
  apply call_inv with (P := (P ++ [ep]) ++ [ef]) (Ls := Ls) in E5; auto.
  destruct b5; inversion E; subst; clear E; (split; [cbn; congruence|]).
  - apply close_P_inv in E5. rewrite app_nil_r in E5.
    apply close_P_inv in E5. rewrite app_nil_r in E5. exact E5.
  - cbn. rewrite <- app_assoc in E5. exact E5.
Qed.

Lemma open_poller_none : forall s, exists p, snd (open_poller None s) = Some p.
Proof. intros s. unfold open_poller. cbn. eexists; reflexivity. Qed.

Lemma add_reads_frame : forall f lns s s' ok,
  add_reads f lns s = (s', ok) ->
  nxt s' = nxt s /\ opn s' = opn s /\ cls s' = cls s /\ gos s' = gos s.
Proof.
  induction lns as [|x r IH]; intros s s' ok E; cbn in E.
  - inversion E; auto.
  - destruct (fails f SAdd (n_add s)).
    + inversion E; cbn; auto.
    + apply IH in E. cbn in E. exact E.
Qed.

Lemma add_reads_inv : forall f lns s s' ok P Ls,
  add_reads f lns s = (s', ok) -> Inv s P Ls -> Inv s' P Ls /\ gos s' = gos s.
Proof.
  intros f lns s s' ok P Ls E H. apply add_reads_frame in E. destruct E as [A [B [C D]]].
  split; auto. apply (Inv_frame s); auto.
Qed.

Lemma add_reads_none : forall lns s, snd (add_reads None lns s) = true.
Proof. induction lns as [|x r IH]; intros s; cbn; auto. Qed.

Lemma create_socks_S : forall f m s,
  create_socks f (S m) s =
  let '(bad, s0) := call f SSock s in
  if bad then ([], s0, false) else
  let '(id, s1) := create KSock s0 in
  let '(bad2, s1') := call f SOpt s1 in
  if bad2 then ([], close id s1', false) else
  let '(ids, s2, ok) := create_socks f m s1' in (id :: ids, s2, ok).
Proof. reflexivity. Qed.

(* a listener whose options cannot be applied is closed at once by initListener: it was held and
   open, it is closed now and no longer held *)
Lemma close_fresh_L_inv : forall s id P Ls,
  Inv s P (id :: Ls) -> ~ In id (cls s) -> Inv (close id s) P Ls.
Proof.
  intros s id P Ls H Hn.
  apply (Inv_weaken _ _ (id :: Ls)).
  - apply close_L_inv; auto. left; reflexivity.
  - intros x Hx. right; exact Hx.
  - intros x [<-|Hx]; [right; left; reflexivity | left; exact Hx].
Qed.

(* whether or not a socket call (or the options of a socket) fails: the listeners returned are held,
   nothing else is held: the socket whose options failed has been closed again *)
Lemma create_socks_inv : forall f n s ids s' ok P Ls,
  create_socks f n s = (ids, s', ok) -> Inv s P Ls -> Inv s' P (ids ++ Ls) /\ gos s' = gos s.
Proof.
  intros f. induction n as [|m IH]; intros s ids s' ok P Ls E H.
  - cbn in E. inversion E; subst; auto.
  - rewrite create_socks_S in E.
    destruct (call f SSock s) as [bad s0] eqn:E0.
    pose proof (call_gos _ _ _ _ _ E0) as G0.
    apply call_inv with (P := P) (Ls := Ls) in E0; auto.
    destruct bad.
    { inversion E; subst; clear E. cbn [app]. auto. }
    destruct (create KSock s0) as [id s1] eqn:E1.
    pose proof (create_gos _ _ _ _ E1) as G1.
    pose proof (create_fresh _ _ _ _ _ _ E1 E0) as N1.
    apply create_L_inv with (P := P) (Ls := Ls) in E1; auto.
    destruct (call f SOpt s1) as [bad2 s1'] eqn:E1'.
    pose proof (call_gos _ _ _ _ _ E1') as G1'.
    pose proof (call_cls _ _ _ _ _ E1') as C1'.
    apply call_inv with (P := P) (Ls := id :: Ls) in E1'; auto.
    destruct bad2.
    { (* the options failed: the socket just created is closed *)
      inversion E; subst; clear E. cbn [app]. split; [|cbn; congruence].
      apply close_fresh_L_inv; auto. rewrite C1'. exact N1. }
    destruct (create_socks f m s1') as [[ids1 s2] ok2] eqn:E2.
    inversion E; subst; clear E.
    destruct (IH _ _ _ _ _ _ E2 E1') as [I G]. split; [|congruence].
    apply (Inv_equiv _ _ _ _ I). intros x. cbn. rewrite !in_app_iff. cbn. tauto.
Qed.

Lemma create_socks_none : forall n s, snd (create_socks None n s) = true.
Proof.
  induction n as [|m IH]; intros s; [reflexivity|].
  rewrite create_socks_S.
  pose proof (call_none SSock s) as Hc.
  destruct (call None SSock s) as [bad s0]. cbn in Hc. subst bad.
  destruct (create KSock s0) as [id s1].
  pose proof (call_none SOpt s1) as Hc'.
  destruct (call None SOpt s1) as [bad2 s1']. cbn in Hc'. subst bad2.
  specialize (IH s1'). destruct (create_socks None m s1') as [[ids s2] ok]. exact IH.
Qed.

Lemma run_event_loops_S : forall f L m first regs s,
  run_event_loops f L (S m) first regs s =
  let '(lns, s0, oks) := if first then (L, s, true) else create_socks f (List.length L) s in
  if negb oks then (close_all_once lns s0, regs, false) else
  let '(s1, op) := open_poller f s0 in
  match op with
  | None => ((if first then s1 else close_all_once lns s1), regs, false)
  | Some p =>
      let regs1 := regs ++ [(lns, p)] in
      let '(s2, ok) := add_reads f lns s1 in
      if ok then run_event_loops f L m false regs1 s2 else (s2, regs1, false)
  end.
Proof. reflexivity. Qed.

Lemma run_event_loops_inv : forall f L todo first regs s s' regs' ok,
  run_event_loops f L todo first regs s = (s', regs', ok) ->
  Inv s (pids regs) (L ++ lids regs) ->
  Inv s' (pids regs') (L ++ lids regs') /\ gos s' = gos s /\
  (ok = true -> List.length regs' = List.length regs + todo).
Proof.
  intros f L. induction todo as [|m IH]; intros first regs s s' regs' ok E H.
  - cbn in E. inversion E; subst. split; [exact H|]. split; [reflexivity | intros _; lia].
  - rewrite run_event_loops_S in E.
    assert (H0 : exists lns s0 oks,
              (if first then (L, s, true) else create_socks f (List.length L) s) = (lns, s0, oks) /\
              Inv s0 (pids regs) (lns ++ L ++ lids regs) /\ gos s0 = gos s /\
              (first = true -> lns = L)).
    { destruct first.
      - exists L, s, true. split; [reflexivity|]. split; [|auto].
        apply (Inv_equiv _ _ _ _ H). intros x. rewrite !in_app_iff. tauto.
      - destruct (create_socks f (List.length L) s) as [[lns s0] oks] eqn:E0.
        exists lns, s0, oks. destruct (create_socks_inv _ _ _ _ _ _ _ _ E0 H) as [I G].
        split; [reflexivity|]. split; [exact I|]. split; [exact G | discriminate]. }
    destruct H0 as [lns [s0 [oks [E0 [I0 [G0 F0]]]]]]. rewrite E0 in E.
    destruct oks; cbn [negb] in E; cbv iota in E.
    2:{ (* a socket of this loop could not be created: the ones created for it are closed *)
        assert (Ic : Inv (close_all_once lns s0) (pids regs) (lns ++ L ++ lids regs)).
        { apply close_all_once_inv; auto. intros x Hx. apply in_app_iff; auto. }
        inversion E; subst; clear E.
        split; [|split; [rewrite close_all_once_gos; exact G0 | discriminate]].
        apply (Inv_weaken _ _ _ _ Ic).
        + intros x. rewrite !in_app_iff. tauto.
        + intros x. rewrite close_all_once_cls, !in_app_iff. tauto. }
    destruct (open_poller f s0) as [s1 op] eqn:E1.
    destruct (open_poller_inv _ _ _ _ _ _ E1 I0) as [G1 I1].
    destruct op as [p|].
    + cbv zeta in E.
      destruct (add_reads f lns s1) as [s2 ok2] eqn:E2.
      destruct (add_reads_inv _ _ _ _ _ _ _ E2 I1) as [I2 G2].
      assert (I3 : Inv s2 (pids (regs ++ [(lns, p)])) (L ++ lids (regs ++ [(lns, p)]))).
      { rewrite pids_snoc. apply (Inv_equiv _ _ _ _ I2).
        intros x. rewrite !in_app_iff, in_lids_snoc. tauto. }
      destruct ok2.
      * destruct (IH _ _ _ _ _ _ E I3) as [I4 [G4 N4]].
        split; [exact I4|]. split; [congruence|].
        intros Hok. rewrite (N4 Hok), app_length. cbn. lia.
      * inversion E; subst; clear E. split; [exact I3|]. split; [congruence | discriminate].
    + assert (I2 : Inv (if first then s1 else close_all_once lns s1) (pids regs) (L ++ lids regs)
                   /\ gos (if first then s1 else close_all_once lns s1) = gos s1).
      { destruct first.
        - split; auto. rewrite (F0 eq_refl) in I1.
          apply (Inv_equiv _ _ _ _ I1). intros x. rewrite !in_app_iff. tauto.
        - split; [|apply close_all_once_gos].
          apply (Inv_weaken _ _ (lns ++ L ++ lids regs)).
          + apply close_all_once_inv; auto. intros x Hx. apply in_app_iff; auto.
          + intros x. rewrite !in_app_iff. tauto.
          + intros x. rewrite close_all_once_cls, !in_app_iff. tauto. }
      destruct I2 as [I2 G2]. inversion E; subst; clear E.
      split; [exact I2|]. split; [congruence | discriminate].
Qed.

Lemma run_event_loops_none : forall L todo first regs s,
  snd (run_event_loops None L todo first regs s) = true.
Proof.
  intros L. induction todo as [|m IH]; intros first regs s; [reflexivity|].
  rewrite run_event_loops_S.
  assert (Hs : snd (if first then (L, s, true) else create_socks None (List.length L) s) = true).
  { destruct first; [reflexivity | apply create_socks_none]. }
  destruct (if first then (L, s, true) else create_socks None (List.length L) s) as [[lns s0] oks].
  cbn in Hs. subst oks. cbn [negb]. cbv iota.
  destruct (open_poller_none s0) as [p Hp].
  destruct (open_poller None s0) as [s1 op]. cbn in Hp. subst op. cbv zeta.
  pose proof (add_reads_none lns s1) as Ha.
  destruct (add_reads None lns s1) as [s2 ok2]. cbn in Ha. subst ok2. apply IH.
Qed.

Lemma open_subs_S : forall f L m regs s,
  open_subs f L (S m) regs s =
  let '(s1, op) := open_poller f s in
  match op with
  | None => (s1, regs, false)
  | Some p => open_subs f L m (regs ++ [(L, p)]) s1
  end.
Proof. reflexivity. Qed.

Lemma open_subs_inv : forall f L todo regs s s' regs' ok,
  open_subs f L todo regs s = (s', regs', ok) ->
  Inv s (pids regs) (L ++ lids regs) ->
  Inv s' (pids regs') (L ++ lids regs') /\ gos s' = gos s /\
  (ok = true -> List.length regs' = List.length regs + todo).
Proof.
  intros f L. induction todo as [|m IH]; intros regs s s' regs' ok E H.
  - cbn in E. inversion E; subst. split; [exact H|]. split; [reflexivity | intros _; lia].
  - rewrite open_subs_S in E.
    destruct (open_poller f s) as [s1 op] eqn:E1.
    destruct (open_poller_inv _ _ _ _ _ _ E1 H) as [G1 I1].
    destruct op as [p|].
    + assert (I3 : Inv s1 (pids (regs ++ [(L, p)])) (L ++ lids (regs ++ [(L, p)]))).
      { rewrite pids_snoc. apply (Inv_equiv _ _ _ _ I1).
        intros x. rewrite !in_app_iff, in_lids_snoc. tauto. }
      destruct (IH _ _ _ _ _ E I3) as [I4 [G4 N4]].
      split; [exact I4|]. split; [congruence|].
      intros Hok. rewrite (N4 Hok), app_length. cbn. lia.
    + inversion E; subst; clear E. split; [exact I1|]. split; [congruence | discriminate].
Qed.

Lemma open_subs_none : forall L todo regs s, snd (open_subs None L todo regs s) = true.
Proof.
  intros L. induction todo as [|m IH]; intros regs s; [reflexivity|].
  rewrite open_subs_S.
  destruct (open_poller_none s) as [p Hp].
  destruct (open_poller None s) as [s1 op]. cbn in Hp. subst op. apply IH.
Qed.

Lemma activate_reactors_inv : forall f L n s s' regs ing ok,
  activate_reactors f L n s = (s', regs, ing, ok) ->
  Inv s [] L ->
  Inv s' (pids regs ++ ipids ing) (L ++ lids regs) /\ gos s' = gos s /\
  (ok = true -> List.length regs = n).
Proof.
  unfold activate_reactors. intros f L n s s' regs ing ok E H.
  destruct (open_subs f L n [] s) as [[s1 regs1] ok1] eqn:E1.
  assert (H0 : Inv s (pids []) (L ++ lids [])) by (cbn; rewrite app_nil_r; exact H).
  destruct (open_subs_inv _ _ _ _ _ _ _ _ E1 H0) as [I1 [G1 N1]].
  destruct ok1; cbn [negb] in E; cbv iota in E.
  2:{ inversion E; subst; clear E. cbn [ipids]. rewrite app_nil_r.
      split; [exact I1|]. split; [exact G1 | discriminate]. }
  destruct (open_poller f s1) as [s2 op] eqn:E2.
  destruct (open_poller_inv _ _ _ _ _ _ E2 I1) as [G2 I2].
  destruct op as [p|].
  - destruct (add_reads f L s2) as [s3 ok3] eqn:E3.
    destruct (add_reads_inv _ _ _ _ _ _ _ E3 I2) as [I3 G3].
    inversion E; subst; clear E. cbn [ipids].
    split; [exact I3|]. split; [congruence|]. intros _. apply (N1 eq_refl).
  - inversion E; subst; clear E. cbn. rewrite app_nil_r.
    split; [exact I2|]. split; [congruence | discriminate].
Qed.

Lemma activate_reactors_none : forall L n s, snd (activate_reactors None L n s) = true.
Proof.
  intros L n s. unfold activate_reactors.
  pose proof (open_subs_none L n [] s) as H1.
  destruct (open_subs None L n [] s) as [[s1 regs1] ok1]. cbn in H1. subst ok1. cbn [negb]. cbv iota.
  destruct (open_poller_none s1) as [p Hp].
  destruct (open_poller None s1) as [s2 op]. cbn in Hp. subst op.
  pose proof (add_reads_none L s2) as Ha.
  destruct (add_reads None L s2) as [s3 ok3]. cbn in Ha. subst ok3. reflexivity.
Qed.

(* ------------------------------------------------------------------ *)
(* the clean-up *)

Lemma close_poller_inv : forall s p P Ls,
  Inv s (fst p :: snd p :: P) Ls -> Inv (close_poller p s) P Ls.
Proof.
  intros s p P Ls H. unfold close_poller.
  apply (close_P_inv s (snd p) [fst p] P Ls) in H.
  apply (close_P_inv _ (fst p) [] P Ls) in H. exact H.
Qed.

Lemma close_poller_cls : forall s p x, In x (cls s) -> In x (cls (close_poller p s)).
Proof. intros. cbn. auto. Qed.

Definition close_reg (s : st) (r : loopr) : st := close_poller (snd r) (close_all_once (fst r) s).

Lemma close_regs_inv : forall regs s Pi L,
  Inv s (pids regs ++ Pi) (L ++ lids regs) ->
  Inv (fold_left close_reg regs s) Pi L /\ gos (fold_left close_reg regs s) = gos s.
Proof.
  induction regs as [|r regs' IH]; intros s Pi L H.
  - cbn in *. rewrite app_nil_r in H. auto.
  - destruct r as [lns p]. cbn [fold_left].
    assert (I : Inv (close_reg s (lns, p)) (pids regs' ++ Pi) (L ++ lids regs')
                /\ gos (close_reg s (lns, p)) = gos s).
    { unfold close_reg. cbn [fst snd]. split.
      - apply (Inv_weaken _ _ (L ++ lids ((lns, p) :: regs'))).
        + apply close_poller_inv. apply close_all_once_inv; [exact H|].
          intros x Hx. cbn. rewrite !in_app_iff. tauto.
        + intros x. cbn. rewrite !in_app_iff. tauto.
        + intros x Hx. cbn in Hx. rewrite !in_app_iff in Hx. rewrite in_app_iff.
          destruct Hx as [Hx|[Hx|Hx]]; auto.
          right. apply close_poller_cls. apply close_all_once_cls. left; exact Hx.
      - cbn. apply close_all_once_gos. }
    destruct I as [I G]. destruct (IH _ _ _ I) as [I' G']. split; [exact I' | congruence].
Qed.

Lemma close_event_loops_inv : forall regs ing L s,
  Inv s (pids regs ++ ipids ing) (L ++ lids regs) ->
  Inv (close_event_loops regs ing L s) [] L /\ gos (close_event_loops regs ing L s) = gos s.
Proof.
  intros regs ing L s H. unfold close_event_loops.
  change (fun (s0 : st) (r : loopr) => close_poller (snd r) (close_all_once (fst r) s0)) with close_reg.
  destruct (close_regs_inv _ _ _ _ H) as [I G].
  destruct ing as [p|]; [|auto]. cbn [ipids] in I. split.
  - apply close_poller_inv. apply close_all_once_inv; auto.
  - cbn. rewrite close_all_once_gos. exact G.
Qed.

(* the ledger when Run returns *)
Record Final (s : st) : Prop := mkFinal {
  fin_opn : forall id, In id (map fst (opn s)) <-> id < nxt s;
  fin_nd : NoDup (cls s);
  fin_cls : forall id, In id (cls s) <-> id < nxt s;
}.

Lemma close_phase : forall regs ing L s,
  Inv s (pids regs ++ ipids ing) (L ++ lids regs) ->
  Final (close_all_once L (close_event_loops regs ing L s)) /\
  gos (close_all_once L (close_event_loops regs ing L s)) = gos s.
Proof.
  intros regs ing L s H. destruct (close_event_loops_inv _ _ _ _ H) as [I G].
  split; [|rewrite close_all_once_gos; exact G].
  assert (I' : Inv (close_all_once L (close_event_loops regs ing L s)) [] L)
    by (apply close_all_once_inv; auto).
  destruct I' as [A B C D E F K]. constructor; auto.
  intros id. split; [apply C|]. intros Hid.
  destruct (K id Hid) as [K1|[[]|K1]]; auto.
  apply close_all_once_cls. left; exact K1.
Qed.

(* ------------------------------------------------------------------ *)
(* Run *)

Lemma go_inv : forall n s P Ls, Inv s P Ls -> Inv (go n s) P Ls.
Proof. intros. apply (Inv_frame s); auto. Qed.

Lemma Inv_start : forall f n L s0 okl,
  create_socks f n st0 = (L, s0, okl) -> Inv s0 [] L /\ gos s0 = 0.
Proof.
  intros f n L s0 okl E. destruct (create_socks_inv _ _ _ _ _ _ [] [] E Inv_st0) as [I G].
  rewrite app_nil_r in I. auto.
Qed.

(* createListeners failed: closing the listeners created so far closes everything *)
Lemma close_listeners_final : forall L s,
  Inv s [] L -> Final (close_all_once L s) /\ gos (close_all_once L s) = gos s.
Proof.
  intros L s H.
  assert (H0 : Inv s (pids [] ++ ipids None) (L ++ lids [])) by (cbn; rewrite app_nil_r; exact H).
  exact (close_phase [] None L s H0).
Qed.

Lemma run_final_gos : forall c,
  Final (fst (run c)) /\
  (snd (run c) = Started ->
   gos (fst (run c)) = if c_reuseport c then c_nloops c else S (c_nloops c)).
Proof.
  intros c. unfold run.
  destruct (create_socks (c_fault c) (c_nlis c) st0) as [[L s0] okl] eqn:E0.
  destruct (Inv_start _ _ _ _ _ E0) as [I0 G0].
  destruct okl; cbn [negb]; cbv iota.
  2:{ cbn [fst snd]. destruct (close_listeners_final _ _ I0) as [F _].
      split; [exact F | discriminate]. }
  destruct (c_reuseport c).
  - destruct (run_event_loops (c_fault c) L (c_nloops c) true [] s0) as [[s1 regs] ok] eqn:E1.
    assert (H0 : Inv s0 (pids []) (L ++ lids [])) by (cbn; rewrite app_nil_r; exact I0).
    destruct (run_event_loops_inv _ _ _ _ _ _ _ _ _ E1 H0) as [I1 [G1 N1]].
    assert (I1' : Inv s1 (pids regs ++ ipids None) (L ++ lids regs))
      by (cbn [ipids]; rewrite app_nil_r; exact I1).
    destruct ok; cbn [fst snd].
    + destruct (close_phase _ _ _ _ (go_inv (List.length regs) _ _ _ I1')) as [F G].
      split; [exact F|]. intros _. rewrite G. cbn. rewrite (N1 eq_refl). cbn. lia.
    + destruct (close_phase _ _ _ _ I1') as [F G]. split; [exact F | discriminate].
  - destruct (activate_reactors (c_fault c) L (c_nloops c) s0) as [[[s1 regs] ing] ok] eqn:E1.
    destruct (activate_reactors_inv _ _ _ _ _ _ _ _ E1 I0) as [I1 [G1 N1]].
    destruct ok; cbn [fst snd].
    + destruct (close_phase _ _ _ _ (go_inv (S (List.length regs)) _ _ _ I1)) as [F G].
      split; [exact F|]. intros _. rewrite G. cbn. rewrite (N1 eq_refl). lia.
    + destruct (close_phase _ _ _ _ I1) as [F G]. split; [exact F | discriminate].
Qed.

Lemma after_start_gos : forall c, gos (fst (after_start c)) = 0.
Proof.
  intros c. unfold after_start.
  destruct (create_socks (c_fault c) (c_nlis c) st0) as [[L s0] okl] eqn:E0.
  destruct (Inv_start _ _ _ _ _ E0) as [I0 G0].
  destruct okl; cbn [negb]; cbv iota.
  2:{ cbn [fst]. exact G0. }
  destruct (c_reuseport c).
  - destruct (run_event_loops (c_fault c) L (c_nloops c) true [] s0) as [[s1 regs] ok] eqn:E1.
    assert (H0 : Inv s0 (pids []) (L ++ lids [])) by (cbn; rewrite app_nil_r; exact I0).
    destruct (run_event_loops_inv _ _ _ _ _ _ _ _ _ E1 H0) as [I1 [G1 N1]].
    cbn. congruence.
  - destruct (activate_reactors (c_fault c) L (c_nloops c) s0) as [[[s1 regs] ing] ok] eqn:E1.
    destruct (activate_reactors_inv _ _ _ _ _ _ _ _ E1 I0) as [I1 [G1 N1]].
    cbn. congruence.
Qed.

(* ------------------------------------------------------------------ *)
(* the theorems *)

(* 1. every descriptor created is closed by the time Run returns *)
Theorem run_no_leak : forall c, leaked (fst (run c)) = [].
Proof.
  intros c. destruct (run_final_gos c) as [[A B C] _]. unfold leaked.
  apply filter_none. intros id Hid. apply A, C, existsb_eqb_In in Hid. rewrite Hid. reflexivity.
Qed.

(* 2. no descriptor is closed twice *)
Theorem run_closes_once : forall c, NoDup (cls (fst (run c))).
Proof. intros c. destruct (run_final_gos c) as [[A B C] _]. exact B. Qed.

Corollary run_no_dup_closes : forall c, dup_closes (cls (fst (run c))) = 0.
Proof. intros c. apply NoDup_dup_closes, run_closes_once. Qed.

(* 3. only descriptors the engine created are closed *)
Theorem run_closes_created : forall c id,
  In id (cls (fst (run c))) -> In id (map fst (opn (fst (run c)))).
Proof. intros c id H. destruct (run_final_gos c) as [[A B C] _]. apply A, C, H. Qed.

(* 4. a failing start has started no goroutine *)
Theorem failed_start_no_goroutine : forall c s, after_start c = (s, false) -> gos s = 0.
Proof. intros c s H. pose proof (after_start_gos c) as G. rewrite H in G. exact G. Qed.

(* 5. Run reports Failed exactly when the start failed; without a fault the start succeeds *)
Theorem outcome_spec : forall c, snd (run c) = Failed <-> snd (after_start c) = false.
Proof.
  intros c. unfold run, after_start.
  destruct (create_socks (c_fault c) (c_nlis c) st0) as [[L s0] okl].
  destruct okl; cbn [negb]; cbv iota.
  2:{ cbn. split; reflexivity. }
  destruct (c_reuseport c).
  - destruct (run_event_loops (c_fault c) L (c_nloops c) true [] s0) as [[s1 regs] ok].
    destruct ok; cbn; split; congruence.
  - destruct (activate_reactors (c_fault c) L (c_nloops c) s0) as [[[s1 regs] ing] ok].
    destruct ok; cbn; split; congruence.
Qed.

Theorem no_fault_starts : forall c, c_fault c = None -> snd (run c) = Started.
Proof.
  intros c Hf. unfold run. rewrite Hf.
  pose proof (create_socks_none (c_nlis c) st0) as Hl.
  destruct (create_socks None (c_nlis c) st0) as [[L s0] okl].
  cbn in Hl. subst okl. cbn [negb]. cbv iota.
  destruct (c_reuseport c).
  - pose proof (run_event_loops_none L (c_nloops c) true [] s0) as H.
    destruct (run_event_loops None L (c_nloops c) true [] s0) as [[s1 regs] ok].
    cbn in H. subst ok. reflexivity.
  - pose proof (activate_reactors_none L (c_nloops c) s0) as H.
    destruct (activate_reactors None L (c_nloops c) s0) as [[[s1 regs] ing] ok].
    cbn in H. subst ok. reflexivity.
Qed.

(* 6. a successful start has started one goroutine per loop (and one for the main reactor) *)
Theorem started_goroutines : forall c,
  snd (run c) = Started ->
  gos (fst (run c)) = (if c_reuseport c then c_nloops c else S (c_nloops c)).
Proof. intros c. apply (run_final_gos c). Qed.

(* together: when Run returns, the closed descriptors are exactly the created ones *)
Corollary run_closed_iff_created : forall c id,
  In id (cls (fst (run c))) <-> In id (map fst (opn (fst (run c)))).
Proof.
  intros c id. destruct (run_final_gos c) as [[A B C] _]. rewrite A, C. tauto.
Qed.

(* ------------------------------------------------------------------ *)
(* the theorems are not vacuous: concrete runs *)

Definition summary (c : config) :=
  let r := run c in
  (snd r, count_kind KSock (fst r), count_kind KEpoll (fst r), count_kind KEfd (fst r),
   List.length (cls (fst r)), gos (fst r)).

(* reuse-port, 3 loops, 2 listeners, the 4th epoll_ctl ADD fails (the eventfd of loop 1's poller):
   loop 0 is registered, loop 1 has created its 2 sockets and its poller; all 8 descriptors are
   closed, each once *)
Example ex_reuseport_add_fails :
  summary (mkCfg true 3 2 (Some (mkFault SAdd 3))) = (Failed, 4, 2, 2, 8, 0).
Proof. vm_compute. reflexivity. Qed.

Example ex_reuseport_add_fails_after_start :
  let r := after_start (mkCfg true 3 2 (Some (mkFault SAdd 3))) in
  snd r = false /\ gos (fst r) = 0 /\ cls (fst r) = [5; 4; 6; 7] /\ leaked (fst r) = [3; 2; 1; 0].
Proof. vm_compute. repeat split; reflexivity. Qed.

Example ex_reuseport_add_fails_ledger :
  let s := fst (run (mkCfg true 3 2 (Some (mkFault SAdd 3)))) in
  leaked s = [] /\ dup_closes (cls s) = 0 /\ cls s = [2; 3; 1; 0; 5; 4; 6; 7].
Proof. vm_compute. repeat split; reflexivity. Qed.

(* reactors, 2 sub-reactors, 1 listener, no fault: 3 goroutines, 1 socket and 3 pollers *)
Example ex_reactors_start :
  summary (mkCfg false 2 1 None) = (Started, 1, 3, 3, 7, 3).
Proof. vm_compute. reflexivity. Qed.

(* reactors, the 3rd eventfd (the main reactor's) fails: its epoll descriptor is closed at once,
   the two sub-reactors and the listeners by the clean-up *)
Example ex_reactors_efd_fails :
  summary (mkCfg false 2 2 (Some (mkFault SEfd 2))) = (Failed, 2, 3, 2, 7, 0).
Proof. vm_compute. reflexivity. Qed.

(* reuse-port, the 2nd epoll_create1 fails: loop 1's socket is closed by the failing step *)
Example ex_reuseport_epoll_fails :
  summary (mkCfg true 2 1 (Some (mkFault SEpoll 1))) = (Failed, 2, 1, 1, 4, 0).
Proof. vm_compute. reflexivity. Qed.

(* reactors, arming the listeners on the main reactor fails: the main reactor's poller exists and
   is closed by the clean-up *)
Example ex_reactors_arm_fails :
  summary (mkCfg false 1 2 (Some (mkFault SAdd 3))) = (Failed, 2, 2, 2, 6, 0).
Proof. vm_compute. reflexivity. Qed.

(* reuse-port, no fault: one goroutine per loop *)
Example ex_reuseport_start :
  summary (mkCfg true 3 2 None) = (Started, 6, 3, 3, 12, 3).
Proof. vm_compute. reflexivity. Qed.

(* a fault that is never reached does not fail the start *)
Example ex_fault_not_reached :
  summary (mkCfg false 1 1 (Some (mkFault SEpoll 5))) = (Started, 1, 2, 2, 5, 2).
Proof. vm_compute. reflexivity. Qed.

(* createListeners: the 2nd socket(2) fails: Run ends before the start, the one listener created
   is closed again; nothing else was created, no goroutine *)
Example ex_create_listeners_sock_fails :
  summary (mkCfg true 2 2 (Some (mkFault SSock 1))) = (Failed, 1, 0, 0, 1, 0).
Proof. vm_compute. reflexivity. Qed.

Example ex_create_listeners_sock_fails_ledger :
  let c := mkCfg true 2 2 (Some (mkFault SSock 1)) in
  leaked (fst (run c)) = [] /\ dup_closes (cls (fst (run c))) = 0 /\ cls (fst (run c)) = [0] /\
  snd (after_start c) = false /\ gos (fst (after_start c)) = 0 /\ cls (fst (after_start c)) = [].
Proof. vm_compute. repeat split; reflexivity. Qed.

(* reuse-port, 3 loops, 2 listeners, the 4th socket(2) fails (loop 1's second listener): loop 0
   is registered with its poller, loop 1 has created one socket, closed by the failing step;
   3 sockets, 1 epoll descriptor, 1 eventfd, 5 closes, nothing leaked *)
Example ex_reuseport_sock_fails :
  summary (mkCfg true 3 2 (Some (mkFault SSock 3))) = (Failed, 3, 1, 1, 5, 0).
Proof. vm_compute. reflexivity. Qed.

Example ex_reuseport_sock_fails_after_start :
  let r := after_start (mkCfg true 3 2 (Some (mkFault SSock 3))) in
  snd r = false /\ gos (fst r) = 0 /\ cls (fst r) = [4] /\ leaked (fst r) = [3; 2; 1; 0].
Proof. vm_compute. repeat split; reflexivity. Qed.

Example ex_reuseport_sock_fails_ledger :
  let s := fst (run (mkCfg true 3 2 (Some (mkFault SSock 3)))) in
  leaked s = [] /\ dup_closes (cls s) = 0 /\ cls s = [2; 3; 1; 0; 4].
Proof. vm_compute. repeat split; reflexivity. Qed.

(* reactors never create sockets after createListeners: a socket fault beyond the engine's own
   listeners is not reached *)
Example ex_reactors_sock_fault_not_reached :
  summary (mkCfg false 2 2 (Some (mkFault SSock 2))) = (Started, 2, 3, 3, 8, 3).
Proof. vm_compute. reflexivity. Qed.

(* createListeners: the options of the very first listener cannot be applied: initListener closes
   the socket it has just opened, Run ends before the start; 1 socket, 1 close (by initListener, at
   once: nothing is left for the clean-up), nothing leaked, no duplicate close *)
Example ex_create_listeners_opt_fails :
  summary (mkCfg false 2 3 (Some (mkFault SOpt 0))) = (Failed, 1, 0, 0, 1, 0).
Proof. vm_compute. reflexivity. Qed.

Example ex_create_listeners_opt_fails_ledger :
  let c := mkCfg false 2 3 (Some (mkFault SOpt 0)) in
  leaked (fst (run c)) = [] /\ dup_closes (cls (fst (run c))) = 0 /\ cls (fst (run c)) = [0] /\
  snd (after_start c) = false /\ gos (fst (after_start c)) = 0 /\ cls (fst (after_start c)) = [0] /\
  leaked (fst (after_start c)) = [].
Proof. vm_compute. repeat split; reflexivity. Qed.

(* createListeners: the options of the 2nd listener fail: it is closed by initListener, the 1st
   listener by createListeners' clean-up; 2 sockets, 2 closes, nothing leaked *)
Example ex_create_listeners_opt_fails_second :
  summary (mkCfg true 2 2 (Some (mkFault SOpt 1))) = (Failed, 2, 0, 0, 2, 0).
Proof. vm_compute. reflexivity. Qed.

Example ex_create_listeners_opt_fails_second_ledger :
  let c := mkCfg true 2 2 (Some (mkFault SOpt 1)) in
  leaked (fst (run c)) = [] /\ dup_closes (cls (fst (run c))) = 0 /\ cls (fst (run c)) = [0; 1] /\
  snd (after_start c) = false /\ gos (fst (after_start c)) = 0 /\ cls (fst (after_start c)) = [1] /\
  leaked (fst (after_start c)) = [0].
Proof. vm_compute. repeat split; reflexivity. Qed.

(* reuse-port, 3 loops, 2 listeners, the options of the 4th socket fail (loop 1's second listener):
   it is closed by initListener, loop 1's first listener by the failing step, loop 0 by the clean-up;
   4 sockets, 1 poller, 6 closes *)
Example ex_reuseport_opt_fails :
  summary (mkCfg true 3 2 (Some (mkFault SOpt 3))) = (Failed, 4, 1, 1, 6, 0).
Proof. vm_compute. reflexivity. Qed.

Example ex_reuseport_opt_fails_ledger :
  let s := fst (run (mkCfg true 3 2 (Some (mkFault SOpt 3)))) in
  leaked s = [] /\ dup_closes (cls s) = 0 /\ cls s = [2; 3; 1; 0; 4; 5].
Proof. vm_compute. repeat split; reflexivity. Qed.

(* reactors apply no listener options after createListeners: an options fault beyond the engine's
   own listeners is not reached *)
Example ex_reactors_opt_fault_not_reached :
  summary (mkCfg false 2 2 (Some (mkFault SOpt 2))) = (Started, 2, 3, 3, 8, 3).
Proof. vm_compute. reflexivity. Qed.

Print Assumptions run_no_leak.
Print Assumptions run_closes_once.
Print Assumptions run_no_dup_closes.
Print Assumptions run_closes_created.
Print Assumptions run_closed_iff_created.
Print Assumptions failed_start_no_goroutine.
Print Assumptions outcome_spec.
Print Assumptions no_fault_starts.
Print Assumptions started_goroutines.
